"""The boring reference: NIP-01 matching, strict authenticity, replaceable/deletion/expiry semantics
as worded in the properties. Plain Python over event dicts; no I/O; nothing implementation-only."""
import hashlib
from .universe import serialize, verify_schnorr

HEX = set("0123456789abcdef")


# ------------------------------------------------------------------------------------------------
# kinds
def is_ephemeral(k):
    return 20000 <= k < 30000


def is_replaceable(k):
    return k in (0, 3) or 10000 <= k < 20000


def is_param_replaceable(k):
    return 30000 <= k < 40000


def d_value(ev):
    """absent == bare == empty"""
    for t in ev["tags"]:
        if t and t[0] == "d":
            return t[1] if len(t) > 1 and isinstance(t[1], str) else ""
    return ""


def address(ev):
    k = ev["kind"]
    if is_replaceable(k):
        return (ev["pubkey"], k, None)
    if is_param_replaceable(k):
        return (ev["pubkey"], k, d_value(ev))
    return None


# ------------------------------------------------------------------------------------------------
# NIP-01 matching on validated filters
def delegator(ev):
    for t in ev["tags"]:
        if len(t) >= 2 and t[0] == "delegation":
            return t[1]
    return None


def delegators(ev):
    return {t[1] for t in ev["tags"] if len(t) >= 2 and t[0] == "delegation" and isinstance(t[1], str)}


def tag_values(ev, name):
    return {t[1] for t in ev["tags"] if len(t) >= 2 and t[0] == name and isinstance(t[1], str)}


def matches(f, ev, window="strict"):
    """f: dict with optional ids, authors, kinds, since, until, and '#x' keys (lists of str).
    window: 'strict' -> created_at strictly inside (since, until) required for a sure match;
            'loose'  -> boundary timestamps count as matching (used for soundness)."""
    if "ids" in f and ev["id"] not in f["ids"]:
        return False
    if "authors" in f:
        if ev["pubkey"] not in f["authors"] and not (delegators(ev) & set(f["authors"])):
            return False
    if "kinds" in f and ev["kind"] not in f["kinds"]:
        return False
    s = f.get("since")
    u = f.get("until")
    if s:
        if window == "strict":
            if not ev["created_at"] > s:
                return False
        elif not ev["created_at"] >= s:
            return False
    if u is not None:  # until = 0 is a real bound (nothing after 1970-01-01), unlike since = 0 which bounds nothing
        if window == "strict":
            if not ev["created_at"] < u:
                return False
        elif not ev["created_at"] <= u:
            return False
    for k, vals in f.items():
        if k.startswith("#") and len(k) == 2:
            if not (tag_values(ev, k[1]) & set(vals)):
                return False
    return True


def on_boundary(f, ev):
    return (f.get("since") and ev["created_at"] == f["since"]) or (
        f.get("until") is not None and ev["created_at"] == f["until"])


# ------------------------------------------------------------------------------------------------
# authenticity (strict, independent implementation)
def is_lower_hex(s, n):
    return isinstance(s, str) and len(s) == n and all(c in HEX for c in s)


def authentic(ev):
    """ev: the JSON object as submitted/served. Returns (ok, reason)."""
    if not isinstance(ev, dict):
        return False, "not an object"
    for k in ("id", "pubkey", "created_at", "kind", "tags", "content", "sig"):
        if k not in ev:
            return False, "missing " + k
    if not is_lower_hex(ev["id"], 64):
        return False, "id not 64 lowercase hex"
    if not is_lower_hex(ev["pubkey"], 64):
        return False, "pubkey not 64 lowercase hex"
    if not is_lower_hex(ev["sig"], 128):
        return False, "sig not 128 lowercase hex"
    if type(ev["created_at"]) is not int or type(ev["kind"]) is not int:
        return False, "created_at/kind not integers"
    if not isinstance(ev["content"], str):
        return False, "content not a string"
    if not isinstance(ev["tags"], list) or not all(isinstance(t, list) for t in ev["tags"]):
        return False, "tags not a list of lists"
    try:
        digest = hashlib.sha256(serialize(ev["pubkey"], ev["created_at"], ev["kind"], ev["tags"], ev["content"])).digest()
    except Exception as e:
        return False, "unserialisable: %r" % e
    if digest.hex() != ev["id"]:
        return False, "id is not the hash"
    if not verify_schnorr(ev["pubkey"], digest, ev["sig"]):
        return False, "bad signature"
    for t in ev["tags"]:
        if t and t[0] == "delegation":
            if len(t) != 4 or not all(isinstance(x, str) for x in t):
                return False, "malformed delegation tag"
            _, dpk, cond, dsig = t
            if not is_lower_hex(dpk, 64) or not is_lower_hex(dsig, 128):
                return False, "delegation hex"
            tok = hashlib.sha256(":".join(["nostr", "delegation", ev["pubkey"], cond]).encode()).digest()
            if not verify_schnorr(dpk, tok, dsig):
                return False, "delegation signature"
    return True, ""


# ------------------------------------------------------------------------------------------------
# expiration
def expiration(ev):
    """Returns ('none',None) | ('ok', int) | ('malformed', raw)."""
    for t in ev["tags"]:
        if t and t[0] == "expiration":
            if len(t) < 2:
                return ("malformed", None)
            v = t[1]
            if type(v) is int:
                return ("ok", v)
            if isinstance(v, str) and v.isascii() and v.isdigit():
                return ("ok", int(v))
            return ("malformed", v)
    return ("none", None)
