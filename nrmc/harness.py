"""World = one VLoop + one real storage backend + fake websocket connections driven through the real
nostr_relay.web.start_client."""
import os
import gc
import json
import shutil
import sqlite3
import itertools
import sqlalchemy as sa

from . import env
from .env import HarnessError, CLOCK, TOKENS
from .vloop import VLoop
from . import fakelmdb, sqlshim, kvdoubles

_seq = itertools.count(1)
_TEMPLATE = {}

DEFAULT_CONFIG = dict(
    authentication={},
    subscription_limit=32,
    service_privatekey="9627da965699a2a3048f97b77df5047e8cd0d11daca75e7687d0b28b65416a3c",
    output_validator=None,
    max_event_size=4096,
    oldest_event=31536000,
    valid_kinds=None,
    pubkey_whitelist=None,
    pubkey_blacklist=None,
    require_pow=None,
    hellthread_limit=None,
    garbage_collector={},
    gunicorn={"bind": "127.0.0.1:6969", "workers": 1},
    run_notifier=False,
    fts_enabled=False,
    dynamic_lists=None,
    foaf=None,
    DEBUG=False,
)


def apply_config(ns, overrides=None):
    cfg = ns.Config
    for k, v in DEFAULT_CONFIG.items():
        setattr(cfg, k, v if not isinstance(v, (dict, list)) else json.loads(json.dumps(v)))
    for k, v in (overrides or {}).items():
        setattr(cfg, k, v)


class NullLog:
    """Logger double handed to start_client; records .exception()/.error() calls (C19 oracle)."""

    def __init__(self):
        self.exceptions = []
        self.errors = []

    def exception(self, msg, *a, **k):
        import sys

        self.exceptions.append((msg, repr(sys.exc_info()[1])))

    def error(self, msg, *a, **k):
        self.errors.append(msg)

    def info(self, *a, **k):
        pass

    debug = warning = critical = info


class Conn:
    """Fake websocket endpoint. Transcript entries: ('send', seq, text) | ('mark', seq, n_received)
    | ('close', seq, code) | ('recv', seq, text)."""

    def __init__(self, world, name, addr):
        self.world = world
        self.name = name
        self.addr = addr
        self.inbox = []
        self.waiter = None
        self.dropped = False
        self.closed_by_relay = None
        self.transcript = []
        self.received = 0
        self.task = None
        self.log = NullLog()
        self.stall = False
        self.stalled = []
        self.handler_exception = None

    # -- what start_client sees -----------------------------------------------------------------
    async def recv(self):
        w = self.world
        if self.inbox:
            self.received += 1
            m = self.inbox.pop(0)
            self.transcript.append(("recv", w.tick(), m))
            return m
        if self.dropped:
            raise w.ns.web.falcon.WebSocketDisconnected()
        self.transcript.append(("mark", w.tick(), self.received))
        self.waiter = w.loop.create_future()
        try:
            m = await self.waiter
        finally:
            self.waiter = None
        self.received += 1
        self.transcript.append(("recv", w.tick(), m))
        return m

    async def send(self, text):
        w = self.world
        if self.dropped or self.closed_by_relay is not None:
            raise w.ns.web.falcon.WebSocketDisconnected()
        # the entry is recorded when ws_send is *called* (R2: a frame is judged by when its send starts)
        self.transcript.append(("send", w.tick(), text))
        if self.stall:
            fut = w.loop.create_future()
            self.stalled.append(fut)
            await fut
            if self.dropped:
                raise w.ns.web.falcon.WebSocketDisconnected()

    async def close(self, code=1000):
        self.transcript.append(("close", self.world.tick(), code))
        self.closed_by_relay = code

    # -- what the environment does ----------------------------------------------------------------
    def deliver(self, text, quiescent=None):
        if self.dropped:
            return
        # environment action: recorded with whether the relay was idle at that moment (no ready handle, no pending job)
        self.transcript.append(("deliver", self.world.tick(), quiescent))
        if self.waiter is not None and not self.waiter.done():
            self.waiter.set_result(text)
        else:
            self.inbox.append(text)

    def drop(self, quiescent=None):
        self.dropped = True
        self.transcript.append(("drop", self.world.tick(), quiescent))
        if self.waiter is not None and not self.waiter.done():
            self.waiter.set_exception(self.world.ns.web.falcon.WebSocketDisconnected())
        for f in self.stalled:
            if not f.done():
                f.set_result(None)
        self.stalled.clear()

    def unstall(self):
        """release the sends that are currently blocked (later sends block again: a slow client)"""
        for f in self.stalled:
            if not f.done():
                f.set_result(None)
        self.stalled.clear()

    # -- views ------------------------------------------------------------------------------------
    def sent(self):
        return [t[2] for t in self.transcript if t[0] == "send"]

    def sent_json(self):
        return [json.loads(s) for s in self.sent()]


class World:
    """backend: 'sql' | 'kv'."""

    def __init__(self, backend, config=None, storage_options=None, max_limit=6000, rate_limits=None,
                 path=None, fresh=True, message_timeout=1800, _session=False):
        if not _session:
            # one live World per process: Config, the storage singleton and the running-loop marker are process globals
            from . import seq

            seq.close_all()
        self.ns = env.boot(max_limit=max_limit)
        ns = self.ns
        self.backend = backend
        self.seq = 0
        self.loop = VLoop()
        self.loop.activate()
        self.conns = {}
        self.message_timeout = message_timeout
        TOKENS.reset()
        apply_config(ns, config)
        ns.storage_pkg._STORAGE = None
        self.n = next(_seq)
        opts = dict(storage_options or {})
        if backend == "sql":
            self.path = path or os.path.join(sqlshim.scratch_dir(), "w%d.sqlite3" % self.n)
            if fresh:
                _fresh_sqlite(ns, self.path)
            self.sql = sqlshim.SqlWorld(self.path)
            opts.update({
                "sqlalchemy.url": "sqlite+aiosqlite:///" + self.path,
                "sqlalchemy.async_creator": self.sql.creator,
            })
            opts.setdefault("validators", ["nostr_relay.validators.is_signed"])
            ns.Config.storage = dict(opts)
            self.storage = ns.db.DBStorage(opts)
        elif backend == "kv":
            self.path = path or "mem-%d-%d" % (os.getpid(), self.n)
            if fresh:
                fakelmdb._ENVS.pop(self.path, None)
            opts.update({"class": "nostr_relay.storage.kv.LMDBStorage", "path": self.path})
            opts.setdefault("validators", ["nostr_relay.validators.is_signed"])
            ns.Config.storage = dict(opts)
            ns.kv.compile_match_from_query.cache_clear()
            self.storage = ns.kv.LMDBStorage(opts)
        else:
            raise HarnessError(backend)
        ns.base.compile_filters.cache_clear()
        ns.storage_pkg._STORAGE = self.storage
        self.opts = dict(ns.Config.storage)  # as configured (the storage object pops entries from its own copy)
        self.loop.run_coro(self.storage.setup())
        if backend == "kv":
            st = self.storage
            st.writer_queue.on_put = self._on_writer_put
            self.env = st.db
        # the limiter's clock follows the virtual loop clock (throttle sleeps advance it)
        ns.rate_limiter.perf_counter = self.loop.time
        self.rate_limiter = ns.rate_limiter.get_rate_limiter(
            {"rate_limits": rate_limits} if rate_limits else {})

    # -------------------------------------------------------------------------------------------
    def tick(self):
        self.seq += 1
        return self.seq

    def _on_writer_put(self, item):
        st = self.storage
        wt = st.writer_thread
        # one job per queued task; the thread processes FIFO, so only the oldest is enabled
        job = self.loop.add_step_job("kvwrite", lambda: kvdoubles.writer_step(wt), label=str(item[0]) if item else "stop")
        job.enabled = lambda j=job: next((x for x in self.loop.jobs if x.kind == "kvwrite"), None) is j

    def connect(self, name, addr="1.1.1.1", storage=None):
        c = Conn(self, name, addr)
        self.conns[name] = c
        st = storage if storage is not None else self.storage

        async def handler():
            try:
                return await self.ns.web.start_client(
                    st, c.send, c.recv, c.close, c.log,
                    rate_limiter=self.rate_limiter, remote_addr=addr, message_timeout=self.message_timeout)
            except BaseException as e:
                c.handler_exception = e  # nothing may escape the connection handler (C19)
                raise
            finally:
                c.transcript.append(("done", self.tick(), None))

        c.task = self.loop.create_task(handler())
        return c

    def connect_via_resource(self, name, addr="1.1.1.1", origin=""):
        """like connect(), but through the websocket resource of the web application (NostrAPI.on_websocket: origin check, ACCEPT rate
        limit, ws.accept(), then start_client) - one resource instance per World, as in create_app.  ws.accept() is a job the explorer
        completes, so that the handshakes of several connections can overlap."""
        import types

        c = Conn(self, name, addr)
        self.conns[name] = c
        if getattr(self, "_api", None) is None:
            self._api = self.ns.web.NostrAPI(self.storage, rate_limiter=self.rate_limiter)
        loop = self.loop

        async def accept(*a, **kw):
            await loop.hop("accept", lambda: None, label=name)

        req = types.SimpleNamespace(remote_addr=addr, get_header=lambda h, default=None: origin if h.lower() == "origin" else default)
        ws = types.SimpleNamespace(accept=accept, send_text=c.send, receive_text=c.recv, close=c.close)

        async def handler():
            try:
                return await self._api.on_websocket(req, ws)
            except BaseException as e:
                c.handler_exception = e
                raise
            finally:
                c.transcript.append(("done", self.tick(), None))

        c.task = self.loop.create_task(handler())
        return c

    def cli_load(self, lines, validators_key=True, horizon=1e9):
        """Run the real `nostr-relay load` command body (cli.load, unwrapped from click/asyncio.run) over a file holding `lines`.
        As in a fresh `nostr-relay load` process the loader builds its own storage object from Config.storage through get_storage();
        the World's first storage object is closed before.  validators_key=False: the storage section has no `validators` entry (the
        shipped default list applies).  Returns what the command printed."""
        import io
        import importlib
        import contextlib

        ns = self.ns
        import sys

        if "nostr_relay.cli" not in sys.modules:
            # cli.py installs uvloop's event loop policy at import when uvloop is present: keep the harness process on the stock policy
            had = sys.modules.get("uvloop", Ellipsis)
            sys.modules["uvloop"] = None
            try:
                importlib.import_module("nostr_relay.cli")
            finally:
                if had is Ellipsis:
                    sys.modules.pop("uvloop", None)
                else:
                    sys.modules["uvloop"] = had
        cli = sys.modules["nostr_relay.cli"]
        fn = cli.load.callback
        while hasattr(fn, "__wrapped__"):
            fn = fn.__wrapped__
        old = self.storage
        if self.backend == "sql":
            self.call(old.close())
            sa.event.remove(sa.engine.base.Engine, "connect", old._set_sqlite_pragma)
        else:
            kvdoubles.stop_writer(old.writer_thread)
        opts = dict(self.opts)
        if not validators_key:
            opts.pop("validators", None)
        ns.Config.storage = opts
        ns.storage_pkg._STORAGE = None
        world = self
        cls = orig = None
        if self.backend == "kv":
            cls = ns.kv.LMDBStorage
            orig = cls.setup

            async def setup(st):
                await orig(st)
                st.writer_queue.on_put = world._on_writer_put
                world.storage = st
                world.env = st.db

            cls.setup = setup
        path = os.path.join("/dev/shm" if os.path.isdir("/dev/shm") else sqlshim.scratch_dir(), "nrmc_load_%d_%d.jsonl" % (os.getpid(), self.n))
        with open(path, "w") as f:
            f.write("".join(line + "\n" for line in lines))
        out = io.StringIO()
        try:
            with contextlib.redirect_stdout(out):
                self.call(fn(None, path), horizon)
        finally:
            try:
                os.unlink(path)
            except OSError:
                pass
            if cls is not None:
                cls.setup = orig
            st = ns.storage_pkg._STORAGE
            if st is not None:
                self.storage = st
        return out.getvalue()

    def run(self, horizon=50.0):
        self.loop.drain(horizon=horizon)

    def call(self, coro, horizon=50.0):
        return self.loop.run_coro(coro, horizon=horizon)

    def send(self, conn, obj, horizon=50.0):
        """deliver one frame and run the default schedule to quiescence"""
        c = self.conns[conn] if isinstance(conn, str) else conn
        c.deliver(obj if isinstance(obj, str) else json.dumps(obj, ensure_ascii=False))
        self.run(horizon)

    def http_get(self, eid, horizon=1e6):
        """GET /e/<id>: the real ViewEventResource.on_get (one resource instance for the lifetime of the app, as in create_app)
        + falcon's response media rendering. Returns the body text or ('status', code)."""
        falcon = self.ns.web.falcon
        import falcon.asgi

        if getattr(self, "_http", None) is None:
            self._http = (self.ns.web.ViewEventResource(self.storage), falcon.asgi.App())
        res, app = self._http
        resp = falcon.asgi.Response(options=app.resp_options)

        async def go():
            try:
                await res.on_get(None, resp, eid)
            except falcon.HTTPError as e:
                return ("status", e.status)
            body = await resp.render_body()
            return body.decode("utf8") if isinstance(body, (bytes, bytearray)) else body

        return self.call(go(), horizon)

    def dump(self):
        if self.backend == "sql":
            return sqlshim.dump(self.path)
        return tuple(fakelmdb._ENVS[self.path].items())

    def close(self, remove=True):
        try:
            try:
                for c in self.conns.values():
                    if not c.dropped:
                        c.drop()
                self.loop.drain(horizon=0)
            except BaseException:
                pass
            if self.backend == "sql":
                try:
                    self.loop.run_coro(self.storage.close())
                except BaseException:
                    pass
                self.sql.kill()
                try:
                    sa.event.remove(sa.engine.base.Engine, "connect", self.storage._set_sqlite_pragma)
                except sa.exc.InvalidRequestError:
                    pass  # already removed by cli_load and the loader built no storage of its own
                if remove:
                    for suf in ("", "-wal", "-shm", "-journal"):
                        try:
                            os.unlink(self.path + suf)
                        except OSError:
                            pass
            else:
                try:
                    kvdoubles.stop_writer(self.storage.writer_thread)
                except BaseException:
                    pass
                for st in getattr(self, "_extra_storages", []):
                    pass
                if remove:
                    fakelmdb._ENVS.pop(self.path, None)
        finally:
            self.ns.util.Periodic._running_tasks.clear()
            self.ns.util.Periodic._pending_tasks.clear()
            self.ns.storage_pkg._STORAGE = None
            self.loop.shutdown()


def _fresh_sqlite(ns, path):
    """Schema-only template created once per process with SQLAlchemy's own DDL, then file-copied."""
    tpl = _TEMPLATE.get("path")
    if tpl is None:
        tpl = os.path.join(sqlshim.scratch_dir(), "template.sqlite3")
        for suf in ("", "-wal", "-shm"):
            if os.path.exists(tpl + suf):
                os.unlink(tpl + suf)
        eng = sa.create_engine("sqlite:///" + tpl)
        ns.storage_pkg._METADATA = None
        ns.Config.storage = {"sqlalchemy.url": "sqlite+aiosqlite:///x"}
        ns.storage_pkg.get_metadata().create_all(eng)
        with eng.connect() as c:
            c.exec_driver_sql("PRAGMA journal_mode = wal")
        eng.dispose()
        raw = sqlite3.connect(tpl)
        raw.execute("PRAGMA wal_checkpoint(TRUNCATE)")
        raw.close()
        _TEMPLATE["path"] = tpl
    for suf in ("-wal", "-shm", "-journal"):
        try:
            os.unlink(path + suf)
        except OSError:
            pass
    shutil.copyfile(tpl, path)


def cleanup_scratch():
    shutil.rmtree(sqlshim.scratch_root(), ignore_errors=True)
