"""Small helper for checks that add SCHED scenarios (several connections at once) next to their sequential tables.

A check supplies
  scenarios : {name: spec}                      (spec is whatever build() understands)
  build(name, backend, policy) -> explorer.Scenario
  judge(x, name, backend, viol, cid, sig)       (called for every explored execution; x.world is still open)
and gets cases / run for every scenario under both base schedules of the explorer ("actor" = run to completion, "fair" = lock-step) with
<= 1 deviation (or more for the scenarios named in `deeper`)."""
import json

from . import explorer


class SchedMode:
    def __init__(self, scenarios, build, judge, backends=("sql", "kv"), deeper=None, tag="sched", max_limit=6000):
        self.scenarios = scenarios
        self.build = build
        self.judge = judge
        self.backends = backends
        self.deeper = deeper or {}
        self.tag = tag
        self.max_limit = max_limit

    def scn(self, name, backend):
        base, _, policy = name.partition("@")
        return self.build(base, backend, policy or "actor")

    def cases(self, tier):
        from . import env

        env.boot(max_limit=self.max_limit)
        out = []
        for backend in self.backends:
            for name in [n + sfx for n in self.scenarios for sfx in ("", "@fair")]:
                out.append((self.tag, backend, name, ()))
                firsts, npts = explorer.first_level(self.scn(name, backend))
                for p in firsts:
                    out.append((self.tag, backend, name, tuple(p)))
        return out

    def is_case(self, case):
        return isinstance(case, (tuple, list)) and len(case) == 4 and case[0] == self.tag

    def describe(self, case):
        return {"mode": case[0], "backend": case[1], "scenario": case[2], "prefix": list(case[3])}

    def from_desc(self, desc):
        return (desc["mode"], desc["backend"], desc["scenario"], tuple(desc["prefix"]))

    def run(self, case):
        _, backend, name, prefix = case
        scn = self.scn(name, backend)
        base = name.partition("@")[0]
        viol = []
        cid = "%s|%s|%s" % (self.tag, name, backend)
        stats = {"n": 0, "points": 0}
        outcomes = set()

        def on_exec(x):
            sig = "sched=%s" % explorer.rle(x.choices)
            stats["n"] += 1
            stats["points"] += len(x.points)
            before = len(viol)
            self.judge(x, base, backend, viol, cid, sig)
            outcomes.add(json.dumps([x.world.conns[k].sent() for k in sorted(x.world.conns)]))
            if x.world.loop.handler_errors:
                viol.append({"case": cid, "clause": "no-stray-exceptions", "sig": sig, "detail": repr(x.world.loop.handler_errors[:2])})
            for v in viol[before:]:
                v["detail"] += " | scenario=%s schedule=%s" % (scn.name, x.choices)
                v.setdefault("exact", {"scenario": name, "backend": backend, "choices": list(x.choices)})

        extra_dev = self.deeper.get(name, self.deeper.get(base, 0)) if "@" not in name or name in self.deeper else 0
        if not prefix:
            explorer.explore(scn, 0, on_exec)
        else:
            explorer.explore(scn, extra_dev, on_exec, root_prefix=list(prefix))
        return {"id": "%s|p=%s" % (cid, explorer.rle(list(prefix))), "viol": viol, "outcome": sorted(outcomes), "outcome_is_set": True,
                "evals": stats["n"], "states": stats["points"], "transitions": stats["points"], "nontrivial": True, "desc": self.describe(case),
                "extra": {"sched_executions": stats["n"], "sched_choice_points": stats["points"]},
                "sample": {"mode": self.tag, "scenario": scn.name, "prefix": list(prefix), "executions": stats["n"]}}

    def rule(self):
        return (" | sched: scenarios %s with several connections at once, every schedule with <= 1 deviation from each of the two base schedules "
                "(run-to-completion and lock-step)%s" % (sorted(self.scenarios), (", one more for %s" % sorted(self.deeper)) if self.deeper else ""))
