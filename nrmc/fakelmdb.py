"""In-memory double of the subset of py-lmdb that nostr_relay.storage.kv uses.

Semantics modelled (validated against the real liblmdb 0.9.31 where that library is present,
see nrmc/lmdbconf.py): byte-lexicographic key order; snapshot isolation of read transactions (a
read transaction sees the committed state at begin()); a write transaction works on a private copy
that becomes the committed state atomically at commit and is dropped on abort; key length must be
1..511 bytes; cursors over a write transaction observe that transaction's own puts/deletes.

Extras for the model checker: every mutation (put/delete/commit) is appended to env.mutlog; a fault
plan can raise lmdb.Error, or a process-kill marker, at the k-th mutation; committed state can be
snapshotted and restored.
"""
from sortedcontainers import SortedDict

__version__ = "nrmc-double"
MAX_KEY = 511


class Error(Exception):
    pass


class BadValsizeError(Error):
    pass


class MapFullError(Error):
    pass


class ReadonlyError(Error):
    pass


class Crash(BaseException):
    """Process kill at a mutation point (BaseException: must not be swallowed by `except Exception`)."""


_ENVS = {}  # path -> committed SortedDict survives "process restarts" (re-open of the same path)


def reset_all():
    _ENVS.clear()


class FaultPlan:
    """mode: 'error' (raise lmdb.Error) or 'crash' (raise Crash); at: 1-based index of the mutation
    (puts, deletes and commits counted together, from the moment the plan is armed)."""

    def __init__(self, mode, at):
        self.mode = mode
        self.at = at
        self.seen = 0
        self.fired = False

    def tick(self, what):
        self.seen += 1
        if not self.fired and self.seen == self.at:
            self.fired = True
            if self.mode == "error":
                raise Error("injected engine failure at mutation %d (%s)" % (self.at, what))
            raise Crash("injected kill at mutation %d (%s)" % (self.at, what))


class Environment:
    def __init__(self, path=None, **opts):
        self.path = path
        self.opts = opts
        if path not in _ENVS:
            _ENVS[path] = SortedDict()
        self.closed = False
        self.mutlog = []
        self.fault = None
        self.txn_counter = 0
        self.commits = 0
        self.open_write = None

    # -- committed state ----------------------------------------------------------------------
    @property
    def data(self):
        return _ENVS[self.path]

    def snapshot(self):
        return tuple(self.data.items())

    def restore(self, snap):
        _ENVS[self.path] = SortedDict(snap)

    def _mut(self, what, key=b""):
        self.mutlog.append((self.txn_counter, what, bytes(key)))
        if self.fault is not None:
            self.fault.tick(what)

    # -- API ----------------------------------------------------------------------------------
    def begin(self, write=False, buffers=False, db=None, parent=None):
        if self.closed:
            raise Error("environment closed")
        return Transaction(self, write, buffers)

    def stat(self):
        return {"entries": len(self.data), "psize": 4096, "depth": 1, "branch_pages": 0,
                "leaf_pages": 1, "overflow_pages": 0}

    def info(self):
        return {"map_size": self.opts.get("map_size", 0)}

    def close(self):
        self.closed = True

    def sync(self, force=False):
        pass

    def __enter__(self):
        return self

    def __exit__(self, *a):
        self.close()


def open(path=None, **opts):  # noqa: A001 - mirrors lmdb.open
    return Environment(path, **opts)


class Transaction:
    def __init__(self, env, write, buffers):
        self.env = env
        self.write = write
        self.buffers = buffers
        self.done = False
        if write:
            if env.open_write is not None:
                # LMDB serialises writers with a mutex; in the harness all writers run on one
                # controlled thread, so a second concurrent writer is a harness error.
                raise Error("nested/concurrent write transaction in double")
            env.open_write = self
            env.txn_counter += 1
            self.data = env.data.copy()
        else:
            self.data = env.data  # committed object is never mutated in place -> snapshot

    def _out(self, b):
        return memoryview(b) if self.buffers else b

    def _check(self):
        if self.done:
            raise Error("transaction finished")

    def get(self, key, default=None, db=None):
        self._check()
        key = bytes(key)
        if not key or len(key) > MAX_KEY:
            raise BadValsizeError("mdb_get: MDB_BAD_VALSIZE")
        v = self.data.get(key)
        if v is None:
            return default
        return self._out(v)

    def put(self, key, value, dupdata=True, overwrite=True, append=False, db=None):
        self._check()
        if not self.write:
            raise ReadonlyError("put in read-only transaction")
        key = bytes(key)
        if not key or len(key) > MAX_KEY:
            raise BadValsizeError("mdb_put: MDB_BAD_VALSIZE: Unsupported size of key/DB name/data, or wrong DUPFIXED size")
        self.env._mut("put", key)
        if not overwrite and key in self.data:
            return False
        self.data[key] = bytes(value)
        return True

    def delete(self, key, value=b"", db=None):
        self._check()
        if not self.write:
            raise ReadonlyError("delete in read-only transaction")
        key = bytes(key)
        if not key or len(key) > MAX_KEY:
            raise BadValsizeError("mdb_del: MDB_BAD_VALSIZE")
        self.env._mut("delete", key)
        if key in self.data:
            del self.data[key]
            return True
        return False

    def cursor(self, db=None):
        self._check()
        return Cursor(self)

    def commit(self):
        self._check()
        if self.write:
            try:
                self.env._mut("commit")
            except BaseException:
                self._finish()
                raise
            _ENVS[self.env.path] = self.data
            self.env.commits += 1
        self._finish()

    def abort(self):
        if not self.done:
            self._finish()

    def _finish(self):
        self.done = True
        if self.write and self.env.open_write is self:
            self.env.open_write = None

    def __enter__(self):
        return self

    def __exit__(self, et, ev, tb):
        if et is None:
            self.commit()
        else:
            self.abort()
        return False

    def stat(self, db=None):
        return {"entries": len(self.data)}


_PAST_END = object()


class Cursor:
    """py-lmdb cursor semantics over liblmdb's, as validated by nrmc/lmdbconf.py against the real library:
    * `pos` is the internal position: None (uninitialised), _PAST_END (after a set_range that found nothing) or a key;
    * `valid` says whether key() shows it: a next()/prev() that runs off the end leaves the internal position where it was
      (so a following prev() from there goes to the key BEFORE the last one) but key() returns b"";
    * a key deleted under the cursor (same write transaction) leaves the cursor on its successor: next() returns the
      successor, prev() the predecessor of the deleted key, key() the successor (or b"" if there is none)."""

    def __init__(self, txn):
        self.txn = txn
        self.pos = None
        self.valid = False

    @property
    def _d(self):
        return self.txn.data

    # kept for callers that look at .cur
    @property
    def cur(self):
        return self.pos if (self.valid and self.pos is not _PAST_END) else None

    def close(self):
        self.pos = None
        self.valid = False

    def __enter__(self):
        return self

    def __exit__(self, *a):
        self.close()

    def _current(self):
        """the key the cursor shows (after a deletion under it: the successor), or None"""
        if not self.valid or self.pos is None or self.pos is _PAST_END:
            return None
        d = self._d
        if self.pos in d:
            return self.pos
        i = d.bisect_right(self.pos)
        if i >= len(d):
            self.valid = False
            return None
        self.pos = d.keys()[i]
        return self.pos

    def key(self):
        k = self._current()
        return self.txn._out(k if k is not None else b"")

    def value(self):
        k = self._current()
        return self.txn._out(self._d.get(k, b"") if k is not None else b"")

    def item(self):
        return self.key(), self.value()

    def first(self):
        d = self._d
        if not d:
            self.pos, self.valid = None, False
            return False
        self.pos, self.valid = d.keys()[0], True
        return True

    def last(self):
        d = self._d
        if not d:
            self.pos, self.valid = None, False
            return False
        self.pos, self.valid = d.keys()[-1], True
        return True

    def set_range(self, key):
        key = bytes(key)
        d = self._d
        if not key:
            return self.first()
        i = d.bisect_left(key)
        if i >= len(d):
            self.pos, self.valid = (_PAST_END if d else None), False
            return False
        self.pos, self.valid = d.keys()[i], True
        return True

    def set_key(self, key):
        key = bytes(key)
        if key in self._d:
            self.pos, self.valid = key, True
            return True
        self.pos, self.valid = None, False
        return False

    def next(self):
        d = self._d
        if self.pos is None:
            return self.first()
        if self.pos is _PAST_END:
            self.valid = False
            return False
        i = d.bisect_right(self.pos)
        if i >= len(d):
            self.valid = False
            return False
        self.pos, self.valid = d.keys()[i], True
        return True

    def prev(self):
        d = self._d
        if self.pos is None or self.pos is _PAST_END:
            # liblmdb: MDB_PREV on an uninitialised cursor, or after a set_range that ran past the end, goes to the last item
            return self.last()
        i = d.bisect_left(self.pos) - 1
        if i < 0:
            self.valid = False
            return False
        self.pos, self.valid = d.keys()[i], True
        return True

    def _iter(self, step, keys, values):
        while self._current() is not None:
            if keys and values:
                yield self.item()
            elif keys:
                yield self.key()
            else:
                yield self.value()
            if not step():
                break

    def iternext(self, keys=True, values=True):
        if self._current() is None:
            self.first()
        return self._iter(self.next, keys, values)

    def iterprev(self, keys=True, values=True):
        if self._current() is None:
            self.last()
        return self._iter(self.prev, keys, values)

    def __iter__(self):
        return self.iternext()

    def delete(self, dupdata=False):
        k = self._current()
        if k is None:
            return False
        self.txn.delete(k)
        return True
