"""Explicit-state search over the real storage (engine STORE).

State  = canonical dump of the store (SQL: sorted rows of events and tags; LMDB double: whole keyspace).
Transition = submit one event of the universe through the real websocket EVENT path and run all
background work (validator job, SQL round trips, LMDB writer) to idle.
Sharding: each case fixes the first `plen` submissions; the BFS below it dedups states by dump.
"""
import json
import hashlib
import itertools
import collections
import pip._vendor.msgpack as msgpack


def sdigest(dump):
    return hashlib.sha1(repr(dump).encode("utf8", "surrogatepass")).hexdigest()[:16]


def decode_store(backend, dump):
    """dump -> {id_hex: event dict}"""
    out = {}
    if backend == "sql":
        for idh, created_at, kind, pk, tags, sig, content in dump[0]:
            t = json.loads(tags) if isinstance(tags, str) else tags
            out[idh.lower()] = {"id": idh.lower(), "pubkey": pk.lower(), "created_at": created_at, "kind": kind,
                                "tags": t, "content": content, "sig": sig.lower()}
    else:
        for k, v in dump:
            if k[:1] == b"\x00" and len(k) == 33:
                row = msgpack.unpackb(v, use_list=True)
                out[k[1:].hex()] = {"id": row[1].hex(), "created_at": row[2], "kind": row[3], "pubkey": row[4].hex(),
                                    "content": row[5], "tags": row[6], "sig": row[7].hex()}
    return out


def shard_prefixes(names, plen):
    return [list(p) for p in itertools.product(names, repeat=plen)]


def bfs(sess, universe, prefix, depth, on_transition, on_state=None, max_states=None):
    """universe: {name: event-dict}; prefix: list of names applied first; depth: total history length.
    on_transition(hist, pre_dump, name, result, post_dump) -> list of violations
    on_state(hist, dump) -> list of violations
    Returns dict(states=set of digests, transitions=int, viol=[(hist, v)], max_depth)."""
    names = list(universe)
    viol = []
    sess.reset()
    dump = sess.dump()
    seen = {sdigest(dump)}
    transitions = 0
    hist = []
    if on_state is not None and not prefix:
        for v in on_state(hist, dump):
            viol.append((list(hist), v))
    ok = True
    for nm in prefix:
        pre = dump
        r = sess.submit(universe[nm])
        dump = sess.dump()
        transitions += 1
        for v in on_transition(hist, pre, nm, r, dump):
            viol.append((hist + [nm], v))
        hist = hist + [nm]
        d = sdigest(dump)
        seen.add(d)
        if on_state is not None:
            for v in on_state(hist, dump):
                viol.append((list(hist), v))
    frontier = collections.deque([(hist, dump)])
    maxd = len(hist)
    capped = False
    while frontier:
        h, st = frontier.popleft()
        if len(h) >= depth:
            continue
        for nm in names:
            sess.restore(st)
            r = sess.submit(universe[nm])
            post = sess.dump()
            transitions += 1
            h2 = h + [nm]
            for v in on_transition(h, st, nm, r, post):
                viol.append((h2, v))
            d = sdigest(post)
            if d not in seen:
                seen.add(d)
                maxd = max(maxd, len(h2))
                if on_state is not None:
                    for v in on_state(h2, post):
                        viol.append((h2, v))
                if max_states is not None and len(seen) >= max_states:
                    capped = True
                    continue
                frontier.append((h2, post))
    return {"states": seen, "transitions": transitions, "viol": viol, "max_depth": maxd, "capped": capped}


class StoreCheck:
    """Boilerplate for a STORE check module: sharded BFS over named universes on given backends."""

    def __init__(self, pid, universes, oracle, state_oracle=None, backends=("sql", "kv"), depths=None,
                 plen=None, session_kw=None, rule="", linear=None):
        self.pid = pid
        self._universes = universes
        self._U = None
        self.oracle = oracle
        self.state_oracle = state_oracle
        self.backends = backends
        self.depths = depths or {"quick": 3, "thorough": 4}
        self.plen = plen or {"quick": 1, "thorough": 2}
        self.session_kw = session_kw or {}
        self.rule = rule
        # one-process histories: {"quick": depth or {universe: depth}, ...}; every sequence of that many submissions run from an empty
        # store WITHOUT restoring the store in between, so that whatever the relay keeps in memory between events is part of the state
        self.linear = linear or {}

    def linear_depth(self, tier, un):
        d = self.linear.get(tier)
        if isinstance(d, dict):
            return d.get(un, d.get("*"))
        return d

    def U(self):
        if self._U is None:
            self._U = self._universes()
        return self._U

    def depth_for(self, tier, un):
        d = self.depths[tier]
        if isinstance(d, dict):
            return d.get(un, d.get("*"))
        return d

    def cases(self, tier):
        out = []
        for backend in self.backends:
            for un, uni in self.U().items():
                d = self.depth_for(tier, un)
                for p in shard_prefixes(list(uni), min(self.plen[tier], d)):
                    out.append((backend, un, p, d))
                ld = self.linear_depth(tier, un)
                if ld:
                    for first in uni:
                        out.append((backend, un, ["@linear", first], ld))
        return out

    def describe(self, case):
        backend, un, p, d = case
        return {"backend": backend, "universe": un, "prefix": p, "depth": d}

    def run_case(self, case):
        from . import seq

        backend, un, prefix, depth = case
        uni = self.U()[un]
        sess = seq.session(backend, **self.session_kw)
        so = self.state_oracle(backend, uni, sess) if self.state_oracle else None
        if prefix and prefix[0] == "@linear":
            return self.run_linear(case, sess, uni, so)
        res = bfs(sess, uni, prefix, depth, self.oracle(backend, uni, sess), so)
        cid = "%s|U=%s|P=%s|depth=%d" % (backend, un, ",".join(prefix), depth)
        viol = []
        seenv = set()
        for hist, v in res["viol"]:
            key = (v["clause"], v["sig"], tuple(hist))
            if key in seenv:
                continue
            seenv.add(key)
            viol.append({"case": "%s|U=%s" % (backend, un), "clause": v["clause"], "sig": "%s@%s" % (v["sig"], ",".join(hist)),
                         "detail": v["detail"] + " | history=" + ",".join(hist)})
        return {"id": cid, "viol": viol, "outcome": sorted(res["states"]), "outcome_is_set": True,
                "states": len(res["states"]), "transitions": res["transitions"], "evals": res["transitions"],
                "nontrivial": len(res["states"]) > 1, "desc": self.describe(case),
                "sample": {"case": cid, "states": len(res["states"]), "transitions": res["transitions"],
                           "max_depth": res["max_depth"]},
                "extra": {"bfs_max_depth_%d" % res["max_depth"]: 1}}

    def run_linear(self, case, sess, uni, so):
        import itertools

        backend, un, prefix, depth = case
        first = prefix[1]
        judge = self.oracle(backend, uni, sess)
        names = list(uni)
        viol = []
        seenv = set()
        digests = set()
        steps = 0
        nh = 0
        for rest in itertools.product(names, repeat=depth - 1):
            hist = (first,) + rest
            nh += 1
            sess.reset()
            pre = sess.dump()
            done = []
            for nm in hist:
                r = sess.submit(uni[nm])
                post = sess.dump()
                steps += 1
                vs = list(judge(tuple(done), pre, nm, r, post))
                if so is not None:
                    vs += list(so(tuple(done) + (nm,), post) or [])
                for v in vs:
                    key = (v["clause"], v["sig"], tuple(done), nm)
                    if key in seenv:
                        continue
                    seenv.add(key)
                    viol.append({"case": "%s|U=%s" % (backend, un), "clause": v["clause"], "sig": "%s@1p:%s" % (v["sig"], ",".join(done + [nm])),
                                 "detail": v["detail"] + " | one-process history=" + ",".join(done + [nm])})
                done.append(nm)
                pre = post
            digests.add(sdigest(pre))
        cid = "%s|U=%s|1P=%s|depth=%d" % (backend, un, first, depth)
        return {"id": cid, "viol": viol, "outcome": sorted(digests), "outcome_is_set": True, "states": len(digests), "transitions": steps, "evals": steps,
                "nontrivial": len(digests) > 1, "desc": self.describe(case),
                "sample": {"case": cid, "one_process_histories": nh, "steps": steps},
                "extra": {"one_process_histories": nh, "one_process_steps": steps}}

    def coverage(self, tier, agg):
        lin = ""
        if self.linear.get(tier):
            lin = (" One-process histories: every sequence of %s submissions from an empty store without restoring the store in between "
                   "(the writer thread / storage object keep whatever they keep in memory), same oracles at every step." % (self.linear[tier],))
        return {
            "rule": self.rule + " | BFS over store states (state = canonical dump, dedup by dump inside a shard); transition = "
                    "websocket EVENT of each universe member incl. re-submission, background work run to idle; a case = one "
                    "shard (fixed first submissions); non-trivial = shard reaches >1 state; states = sum over shards, "
                    "distinct_outcomes = distinct state digests over all shards." + lin,
            "depth_bound": self.depths[tier],
            "universes": {un: sorted(u) for un, u in self.U().items()},
            "backends": list(self.backends),
        }

    def replay(self, desc):
        case = (desc["backend"], desc["universe"], desc["prefix"], desc["depth"])
        r = self.run_case(case)
        for v in r["viol"]:
            print(v["clause"], v["detail"])
        return r["viol"]

    def export(self, g):
        g.update(cases=self.cases, describe=self.describe, run_case=self.run_case, coverage=self.coverage,
                 replay=self.replay)
