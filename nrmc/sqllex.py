"""Minimal SQL lexer (SQLite / PostgreSQL standard-conforming-strings rules) used to compare the
*skeleton* of the statement the engine was told to execute with the skeleton of the same filter
shape carrying benign values."""


class LexError(Exception):
    pass


IDCH = set("abcdefghijklmnopqrstuvwxyzABCDEFGHIJKLMNOPQRSTUVWXYZ_0123456789$")


def tokens(sql):
    """-> list of (kind, text); kinds: str, blob, num, id, op, comment, dq"""
    out = []
    i, n = 0, len(sql)
    while i < n:
        c = sql[i]
        if c in " \t\r\n\f":
            i += 1
            continue
        if c == "\x00":
            raise LexError("NUL outside a literal")
        if c == "-" and sql[i:i + 2] == "--":
            j = sql.find("\n", i)
            j = n if j < 0 else j
            out.append(("comment", sql[i:j]))
            i = j
            continue
        if c == "/" and sql[i:i + 2] == "/*":
            j = sql.find("*/", i + 2)
            j = n if j < 0 else j + 2
            out.append(("comment", sql[i:j]))
            i = j
            continue
        if c in "xX" and i + 1 < n and sql[i + 1] == "'":
            j = sql.find("'", i + 2)
            if j < 0:
                raise LexError("unterminated blob literal")
            body = sql[i + 2:j]
            if any(ch not in "0123456789abcdefABCDEF" for ch in body) or len(body) % 2:
                raise LexError("bad blob literal")
            out.append(("blob", body))
            i = j + 1
            continue
        if c == "'":
            j = i + 1
            buf = []
            while True:
                if j >= n:
                    raise LexError("unterminated string literal")
                if sql[j] == "'":
                    if j + 1 < n and sql[j + 1] == "'":
                        buf.append("'")
                        j += 2
                        continue
                    break
                buf.append(sql[j])
                j += 1
            out.append(("str", "".join(buf)))
            i = j + 1
            continue
        if c == '"':
            j = sql.find('"', i + 1)
            if j < 0:
                raise LexError("unterminated quoted identifier")
            out.append(("dq", sql[i + 1:j]))
            i = j + 1
            continue
        if c.isdigit():
            j = i
            while j < n and (sql[j].isdigit() or sql[j] in ".eE"):
                j += 1
            out.append(("num", sql[i:j]))
            i = j
            continue
        if c in IDCH:
            j = i
            while j < n and sql[j] in IDCH:
                j += 1
            out.append(("id", sql[i:j].lower()))
            i = j
            continue
        if c in "(),;*=<>!+-/|.%&~?:[]{}@#^\\`":
            out.append(("op", c))
            i += 1
            continue
        # any other character (unicode, control) outside a literal is not part of the benign grammar
        out.append(("op", "U+%04X" % ord(c)))
        i += 1
    return out


def skeleton(sql):
    """token kinds with literals erased; IN-lists are normalised to one placeholder"""
    sk = []
    for kind, text in tokens(sql):
        if kind in ("str", "blob", "num"):
            t = "?" + kind[0]
        else:
            t = "%s:%s" % (kind, text)
        sk.append(t)
    # collapse "?s , ?s , ?s" runs (operand count of IN lists legitimately varies only with list length,
    # which the twin preserves; collapsing makes operand ORDER irrelevant)
    return sk


def literals(sql):
    return [(k, t) for k, t in tokens(sql) if k in ("str", "blob", "num")]
