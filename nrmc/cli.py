import os
import sys
import json
import argparse
import importlib


def main():
    ap = argparse.ArgumentParser(prog="check")
    ap.add_argument("prop")
    ap.add_argument("--tier", default=os.environ.get("VERIF_TIER", "quick"), choices=["quick", "thorough"])
    ap.add_argument("--replay")
    ap.add_argument("--emit-known", help="developer command: dump every failing (case, clause) to this file")
    ap.add_argument("--only", help="developer: restrict to cases whose description contains this text")
    a = ap.parse_args()
    seed = int(os.environ.get("VERIF_SEED", "0") or 0)
    pid = a.prop.upper()
    try:
        mod = importlib.import_module("nrmc.checks.%s" % pid.lower())
    except ImportError as e:
        print("no check for", pid, e)
        return 2
    from . import common, harness

    try:
        if a.replay:
            desc = json.load(open(a.replay))
            from . import env

            env.boot(max_limit=getattr(mod, "MAX_LIMIT", 6000))
            if hasattr(mod, "worker_init"):
                mod.worker_init(desc.get("tier", "quick"))
            if desc.get("exact") and hasattr(mod, "replay_exact"):
                viol = mod.replay_exact(desc["exact"])
            else:
                viol = mod.replay(desc["case"] if "case" in desc else desc)
            for v in viol:
                print("VIOLATION property=%s replay=%s" % (pid, a.replay))
                print("   ", v)
            return 1 if viol else 0
        return common.run_check(mod, a.tier, seed, emit_known=a.emit_known, only=a.only)
    finally:
        harness.cleanup_scratch()


if __name__ == "__main__":
    sys.exit(main())
