"""Binding of the SQLite shim to reality: the same submission sequences are executed (a) through the real aiosqlite driver
(worker threads) on a real asyncio event loop and (b) through nrmc/sqlshim.py on the virtual loop; acknowledgements and the
final dumps must be identical."""
import os
import json
import asyncio
import logging

from . import sqlshim, env
from .harness import apply_config, _fresh_sqlite


def run_real(ns, path, events):
    """real aiosqlite + real loop"""
    apply_config(ns, None)
    _fresh_sqlite(ns, path)
    opts = {"sqlalchemy.url": "sqlite+aiosqlite:///" + path, "validators": ["nostr_relay.validators.is_signed"], "stats_interval": 1e15}
    ns.Config.storage = dict(opts)
    out = []

    async def go():
        st = ns.db.DBStorage(dict(opts))
        ns.storage_pkg._STORAGE = st
        await st.setup()
        try:
            for e in events:
                try:
                    _, changed = await st.add_event(json.loads(json.dumps(e)))
                    out.append(("ok", bool(changed)))
                except Exception as ex:
                    out.append(("exc", type(ex).__name__))
        finally:
            import sqlalchemy as sa

            await st.close()
            sa.event.remove(sa.engine.base.Engine, "connect", st._set_sqlite_pragma)
            for t in list(ns.util.Periodic._running_tasks):
                t.cancel()
            ns.util.Periodic._running_tasks.clear()

    real_validate = None
    loop = asyncio.new_event_loop()
    try:
        loop.run_until_complete(go())
    finally:
        loop.close()
        ns.storage_pkg._STORAGE = None
    return out, sqlshim.dump(path)


def run_shim(events):
    from . import seq

    s = seq.session("sql")
    s.reset()
    out = []
    for e in events:
        ok, reason = s.add_direct(e)
        if reason:
            out.append(("exc", reason.split(":")[0]))
        else:
            out.append(("ok", ok))
    return out, s.dump()


def compare(events, tag):
    from . import seq

    ns = env.boot()
    seq.close_all()
    path = os.path.join(sqlshim.scratch_dir(), "real-%s.sqlite3" % tag)
    try:
        a = run_real(ns, path, events)
    finally:
        for suf in ("", "-wal", "-shm"):
            try:
                os.unlink(path + suf)
            except OSError:
                pass
    b = run_shim(events)
    return a, b
