"""Cooperative scheduler for real threads (engine for the one genuine data race, C16).

Each controlled thread installs a sys.settrace hook; before every *line* (or opcode, in opcode mode) of the traced
functions the thread hands the baton back to the controller and waits on its own semaphore.  The controller picks which
thread runs next from the choice list (default: keep running the current thread; switching away from a runnable thread
is a preemption).  Exploration is exhaustive up to a preemption bound, stateless, replayed from scratch per schedule.
No real lock exists in the code under test, so nothing can block the baton."""
import sys
import threading

from .env import HarnessError


class _T:
    def __init__(self, name, fn, traced_codes, opcodes):
        self.name = name
        self.fn = fn
        self.sem = threading.Semaphore(0)
        self.done = False
        self.exc = None
        self.result = None
        self.traced = traced_codes
        self.opcodes = opcodes
        self.thread = None
        self.steps = 0


class Run:
    def __init__(self, threads, choices):
        self.threads = threads
        self.ctrl = threading.Semaphore(0)
        self.choices = list(choices)
        self.taken = []
        self.points = []  # number of enabled threads at each choice point
        self.trace = []

    def _tracer_for(self, t):
        def local(frame, event, arg):
            if event == ("opcode" if t.opcodes else "line"):
                t.steps += 1
                self.trace.append((t.name, frame.f_code.co_name, frame.f_lineno))
                # yield to the controller before executing this line/opcode
                self.ctrl.release()
                t.sem.acquire()
            return local

        def glob(frame, event, arg):
            if event == "call" and frame.f_code in t.traced:
                if t.opcodes:
                    frame.f_trace_opcodes = True
                return local
            return None

        return glob

    def _body(self, t):
        t.sem.acquire()
        sys.settrace(self._tracer_for(t))
        try:
            t.result = t.fn()
        except BaseException as e:  # noqa
            t.exc = e
        finally:
            sys.settrace(None)
            t.done = True
            self.ctrl.release()

    def execute(self):
        for t in self.threads:
            t.thread = threading.Thread(target=self._body, args=(t,), daemon=True)
            t.thread.start()
        cur = 0
        pos = 0
        while True:
            enabled = [i for i, t in enumerate(self.threads) if not t.done]
            if not enabled:
                break
            # canonical order: the running thread first (if still enabled), then ascending ids
            order = ([cur] if cur in enabled else []) + [i for i in enabled if i != cur]
            if len(order) > 1:
                ch = self.choices[pos] if pos < len(self.choices) else 0
                if ch >= len(order):
                    raise HarnessError("threadmc replay divergence: choice %d of %d" % (ch, len(order)))
                pos += 1
                self.taken.append(ch)
                self.points.append((len(order), cur in enabled))
                nxt = order[ch]
            else:
                nxt = order[0]
            cur = nxt
            self.threads[cur].sem.release()
            if not self.ctrl.acquire(timeout=20):
                raise HarnessError("threadmc: thread %s did not yield" % self.threads[cur].name)
        for t in self.threads:
            t.thread.join(5)
        return self


def explore(make_threads, bound, on_run, opcodes=False, cap=None):
    """make_threads() -> list of (name, fn, traced_code_objects). on_run(run) judges one schedule.
    Returns number of schedules executed."""
    stack = [([], 0)]
    n = 0
    while stack:
        prefix, used = stack.pop()
        ths = [_T(name, fn, set(codes), opcodes) for name, fn, codes in make_threads()]
        r = Run(ths, prefix).execute()
        on_run(r)
        n += 1
        for i in range(len(prefix), len(r.taken)):
            nen, cur_enabled = r.points[i]
            for alt in range(1, nen):
                cost = used + (1 if cur_enabled else 0)
                if cost <= bound:
                    stack.append((r.taken[:i] + [alt], cost))
        if cap is not None and n >= cap:
            return n, True
    return n, False
