"""C07 - all effects of an event are applied atomically, even across crashes.
Fault enumeration: for every distinct transition (store S, event e) found by a STORE BFS over a universe of
events with many effects, the number n of engine mutations of applying e is measured (SQL statements incl.
COMMIT through the sqlite shim; LMDB puts/deletes/commit through the double); then for every k in 1..n(+1):
 (a) the engine raises an error at the k-th mutation -> the store must equal S, nothing is pushed to other
     connections that is not stored, and a follow-up event is applied normally;
 (b) the process is killed at the k-th mutation (k = n+1: right after COMMIT) -> after re-opening the database the
     store equals S or S' (S' if the kill came after the commit), index/tag rows are consistent, and a follow-up
     event is applied normally.
delete_event is enumerated the same way."""
import json
import sqlite3
from sortedcontainers import SortedDict

from .. import seq, store, fakelmdb, sqlshim
from ..harness import World
from ..env import HarnessError
from ..universe import make_event
from . import c10

ID = "C07"
LEVEL = "fault_enumeration"
ASSUMPTIONS = ["atomic commit and crash recovery of SQLite itself (WAL, process kill = connections vanish without commit) and of LMDB are trusted",
               "the LMDB double implements commit as an atomic swap of the committed map; a killed write transaction leaves no trace",
               "a kill is modelled at mutation boundaries (before the k-th statement / put / delete / commit), not inside the engine"]
CHUNK = 1


def universes():
    u = {}
    u["r_t5"] = make_event("A", 10002, 5, [], "")
    u["r_t10"] = make_event("A", 10002, 10, [["r", "x"]], "")
    u["r_t20"] = make_event("A", 10002, 20, [["r", "y"], ["t", "z"]], "")
    u["m_t10"] = make_event("A", 0, 10, [], "{}")
    u["m_t20"] = make_event("A", 0, 20, [["t", "m"]], "{}")
    u["reg1"] = make_event("A", 1, 30, [["e", "aa" * 32], ["p", "bb" * 32], ["t", "one"], ["t", "two"], ["expiration", "99999"]], "five tags")
    u["reg2"] = make_event("A", 1, 31, [["t", "one"]], "")
    u["del12"] = make_event("A", 5, 40, [["e", u["reg1"]["id"]], ["e", u["reg2"]["id"]], ["t", "d"]], "")
    u["p_a_t10"] = make_event("A", 30000, 10, [["d", "a"], ["t", "p"]], "")
    u["p_a_t20"] = make_event("A", 30000, 20, [["d", "a"]], "")
    return {"U7": u}


FOLLOW = make_event("B", 1, 500, [["t", "follow"]], "follow-up")
_U = None


def U():
    global _U
    if _U is None:
        _U = universes()["U7"]
    return _U


BACKLOG_PAIRS = [("reg1", "reg2"), ("r_t10", "m_t10"), ("p_a_t10", "reg2"), ("reg2", "del12"), ("m_t10", "m_t20")]


def cases(tier):
    depth = 2 if tier == "quick" else 3
    out = [(backend, first, depth, tier) for backend in ("sql", "kv") for first in U()]
    # LMDB: two acknowledged events are waiting in the writer's queue when it gets to run; a failure while the second is applied
    # must not take the first one with it (and vice versa)
    for a, b in BACKLOG_PAIRS:
        out.append(("kv-backlog", a, b, tier))
    return out


def describe(case):
    return {"backend": case[0], "first": case[1], "depth": case[2], "tier": case[3]}


# ---------------------------------------------------------------------------------------------------
def load_dump(w, dump):
    if w.backend == "sql":
        raw = sqlite3.connect(w.path, timeout=0, isolation_level=None)
        try:
            bf = bytes.fromhex
            ev, tg = dump
            raw.executemany("INSERT INTO events(id, created_at, kind, pubkey, tags, sig, content) VALUES (?,?,?,?,?,?,?)",
                            [(bf(r[0]), r[1], r[2], bf(r[3]), r[4], bf(r[5]), r[6]) for r in ev])
            raw.executemany("INSERT INTO tags(id, name, value) VALUES (?,?,?)", [(bf(r[0]), r[1], r[2]) for r in tg])
        finally:
            raw.close()
    else:
        fakelmdb._ENVS[w.path] = SortedDict(dump)


def fresh_world(backend, dump):
    so = {"stats_interval": 1e15}
    if backend == "sql":
        # one slot of each pooled resource: whatever a failed event does not give back is missing for the next one
        so.update({"num_concurrent_adds": 1, "num_concurrent_reqs": 1})
    w = World(backend, storage_options=so, message_timeout=1e300)
    if dump is not None:
        load_dump(w, dump)
    sub = w.connect("s", "2.2.2.2")
    wr = w.connect("w", "1.1.1.1")
    w.run(1e6)
    w.send("s", ["REQ", "all", {"since": 1}], 1e6)
    del sub.transcript[:]
    return w


def mutation_count(w):
    return w.sql.count if w.backend == "sql" else len(w.env.mutlog)


def arm(w, mode, k):
    if w.backend == "sql":
        w.sql.arm(mode, k)
    else:
        w.env.fault = fakelmdb.FaultPlan(mode, k)


def disarm(w):
    if w.backend == "sql":
        w.sql.disarm()
    else:
        w.env.fault = None


def pushed_ids(w):
    out = []
    for k, _, p in w.conns["s"].transcript:
        if k == "send":
            try:
                m = json.loads(p)
            except ValueError:
                continue
            if m[0] == "EVENT":
                out.append(m[2]["id"])
    return out


def consistent(backend, dump):
    if backend == "sql":
        ids = {r[0] for r in dump[0]}
        return [("orphan-tag-row", r) for r in dump[1] if r[0] not in ids]
    return [(v["clause"], v["detail"]) for v in c10.invariant(dump)]


def operate(w, op):
    """op: ('event', ev) | ('delete', id)"""
    if op[0] == "event":
        w.send("w", ["EVENT", op[1]], 1e6)
    else:
        try:
            w.call(w.storage.delete_event(op[1]), 1e6)
        except Exception:
            pass  # an injected engine error surfaces to the caller of delete_event; the store is judged afterwards
        w.run(1e6)


def follow_up(w, viol, cid, sig, what):
    """a later event must still be applied (locks / semaphores / writer loop / pool survived)"""
    c = w.conns.get("w2") or w.connect("w2", "3.3.3.3")
    w.run(1e6)
    n0 = len(c.transcript)
    w.send("w2", ["EVENT", FOLLOW], 1e6)
    oks = [json.loads(p) for k, _, p in c.transcript[n0:] if k == "send" and p.startswith('["OK"')]
    st = store.decode_store(w.backend, w.dump())
    if not (oks and oks[0][2] is True and FOLLOW["id"] in st):
        viol.append({"case": cid, "clause": "later-events-still-applied", "sig": sig,
                     "detail": "follow-up event after %s: OK=%r stored=%s" % (what, oks[:1], FOLLOW["id"] in st)})


def enumerate_faults(backend, S, opname, op, viol, cid, stats):
    # fault-free run: S' and n
    w = fresh_world(backend, S)
    try:
        pre = w.dump()
        if store.sdigest(pre) != store.sdigest(S) and backend == "kv":
            raise HarnessError("state restore mismatch")
        c0 = mutation_count(w)
        operate(w, op)
        n = mutation_count(w) - c0
        S2 = w.dump()
        base_pushed = pushed_ids(w)
    finally:
        w.close()
    stats["transitions"] += 1
    stats["mutations"] += n
    if n == 0:
        return
    dS, dS2 = store.sdigest(pre), store.sdigest(S2)
    for mode in ("error", "crash"):
        last = n if mode == "error" else n + 1
        for k in range(1, last + 1):
            sig = "%s@%s|%s@%d/%d" % (opname, dS, mode, k, n)
            w = fresh_world(backend, S)
            crashed = False
            try:
                arm(w, mode, k)
                try:
                    operate(w, op)
                except (fakelmdb.Crash, sqlshim.SqlCrash):
                    crashed = True
                finally:
                    disarm(w)
                stats["faulted_runs"] += 1
                if mode == "error":
                    after = w.dump()
                    if store.sdigest(after) != dS:
                        viol.append({"case": cid, "clause": "engine-error-leaves-state-before", "sig": sig,
                                     "detail": "engine error at mutation %d/%d of %s: store is neither untouched (differs from the state before)%s" % (
                                         k, n, opname, " - it equals the state after" if store.sdigest(after) == dS2 else " nor complete")})
                    inc = consistent(backend, after)
                    if inc:
                        viol.append({"case": cid, "clause": "no-partial-effects", "sig": sig, "detail": "after engine error at %d/%d of %s: %r" % (k, n, opname, inc[:2])})
                    if backend == "sql" and op[0] == "event":
                        st = store.decode_store(backend, after)
                        if op[1]["id"] in pushed_ids(w) and op[1]["id"] not in st:
                            viol.append({"case": cid, "clause": "no-notification-before-commit", "sig": sig,
                                         "detail": "event pushed to a subscriber although its transaction failed at %d/%d" % (k, n)})
                    follow_up(w, viol, cid, sig, "engine error at %d/%d of %s" % (k, n, opname))
                    # the client tries the same operation again (the engine works again): it is applied now, as if nothing had happened
                    if store.sdigest(after) == dS:
                        operate(w, op)
                        retried = dict((kk, vv) for kk, vv in store.decode_store(backend, w.dump()).items() if kk != FOLLOW["id"])
                        wanted = store.decode_store(backend, S2)
                        if set(retried) != set(wanted):
                            viol.append({"case": cid, "clause": "later-events-still-applied", "sig": sig + "|retry",
                                         "detail": "after an engine error at %d/%d of %s the same operation sent again is not applied: stored %d events, expected %d (missing %r, extra %r)" % (
                                             k, n, opname, len(retried), len(wanted), sorted(x[:8] for x in set(wanted) - set(retried)), sorted(x[:8] for x in set(retried) - set(wanted)))})
                else:
                    if not crashed:
                        if k <= n:
                            raise HarnessError("crash point %d/%d of %s was not reached" % (k, n, opname))
                    pushed = pushed_ids(w)
                    # process death: connections vanish without commit, all Python state is dropped
                    path = w.path
                    if backend == "sql":
                        w.sql.kill()
                    w.close(remove=False)
                    w = World(backend, storage_options={"stats_interval": 1e15}, message_timeout=1e300, path=path, fresh=False)
                    after = w.dump()
                    d = store.sdigest(after)
                    allowed = {dS2} if k == n + 1 else {dS, dS2}
                    if d not in allowed:
                        viol.append({"case": cid, "clause": "crash-leaves-before-or-after", "sig": sig,
                                     "detail": "kill at mutation %d/%d of %s: after reopen the store is %s" % (
                                         k, n, opname, "the state BEFORE although the commit had happened" if d == dS else (
                                             "the state AFTER" if d == dS2 else "neither the state before nor after"))})
                    inc = consistent(backend, after)
                    if inc:
                        viol.append({"case": cid, "clause": "no-partial-effects", "sig": sig, "detail": "after kill at %d/%d of %s: %r" % (k, n, opname, inc[:2])})
                    if backend == "sql" and op[0] == "event" and op[1]["id"] in pushed and op[1]["id"] not in store.decode_store(backend, after):
                        viol.append({"case": cid, "clause": "no-notification-before-commit", "sig": sig,
                                     "detail": "event was pushed to a subscriber before the kill at %d/%d but is not in the store after reopen" % (k, n)})
                    follow_up(w, viol, cid, sig, "kill at %d/%d of %s and reopen" % (k, n, opname))
            finally:
                w.close()


def run_backlog(case):
    _, a, b, tier = case
    uni = U()
    viol = []
    cid = "kv|U7|backlog"
    stats = {"faulted_runs": 0}

    def world_with_backlog(prestore):
        w = fresh_world("kv", None)
        for nm in prestore:
            w.send("w", ["EVENT", uni[nm]], 1e6)
        # both events are accepted (OK sent) while the writer thread has not run yet
        for nm in (a, b):
            w.conns["w"].deliver(json.dumps(["EVENT", uni[nm]]))
            w.loop.drain(horizon=1e6, hold=("kvwrite",))
        return w

    def final(w):
        return store.sdigest(w.dump())

    for prestore in ((), ("r_t5",)):
        refs = {}
        for label, names in (("none", ()), ("a", (a,)), ("b", (b,)), ("ab", (a, b))):
            w = fresh_world("kv", None)
            try:
                for nm in prestore + names:
                    w.send("w", ["EVENT", uni[nm]], 1e6)
                refs[label] = final(w)
            finally:
                w.close()
        w = world_with_backlog(prestore)
        try:
            c0 = mutation_count(w)
            w.run(1e6)
            n = mutation_count(w) - c0
            if final(w) != refs["ab"]:
                raise HarnessError("backlog run without faults differs from the sequential reference")
        finally:
            w.close()
        for k in range(1, n + 1):
            sig = "%s,%s|pre=%s|error@%d/%d" % (a, b, ",".join(prestore) or "-", k, n)
            w = world_with_backlog(prestore)
            try:
                arm(w, "error", k)
                try:
                    w.run(1e6)
                finally:
                    disarm(w)
                stats["faulted_runs"] += 1
                d = final(w)
                if d == refs["ab"]:
                    continue  # the fault hit nothing that mattered (e.g. a no-op delete)
                if d not in (refs["a"], refs["b"]):
                    what = "BOTH events are missing" if d == refs["none"] else "the store matches no combination of whole events"
                    viol.append({"case": cid, "clause": "failure-of-one-event-spares-the-others", "sig": sig,
                                 "detail": "two acknowledged events were queued for the writer; an engine error at mutation %d/%d: %s | %s" % (k, n, what, sig)})
                inc = consistent("kv", w.dump())
                if inc:
                    viol.append({"case": cid, "clause": "no-partial-effects", "sig": sig, "detail": "%r | %s" % (inc[:2], sig)})
                follow_up(w, viol, cid, sig, "engine error at %d/%d with two queued events" % (k, n))
            finally:
                w.close()
    return {"id": "%s|%s,%s" % (cid, a, b), "viol": viol, "outcome": None, "evals": stats["faulted_runs"], "nontrivial": stats["faulted_runs"] > 0,
            "desc": {"backend": "kv-backlog", "first": a, "depth": b, "tier": tier}, "extra": {"backlog_faulted_executions": stats["faulted_runs"]},
            "sample": {"case": "kv-backlog", "events": [a, b], "faulted_executions": stats["faulted_runs"]}}


def run_case(case):
    if case[0] == "kv-backlog":
        return run_backlog(case)
    backend, first, depth, tier = case
    uni = U()
    sess = seq.session(backend)
    pairs = {}

    def on_transition(hist, pre, nm, r, post):
        key = (store.sdigest(pre), nm)
        if key not in pairs:
            pairs[key] = (pre, nm, list(hist))
        return []

    res = store.bfs(sess, uni, [first], depth, on_transition)
    # delete_event operations from every reached state (first id of the state)
    seq.close_all()
    viol = []
    cid = "%s|U7" % backend
    stats = {"transitions": 0, "mutations": 0, "faulted_runs": 0}
    seen_del = set()
    for key in sorted(pairs):
        pre, nm, hist = pairs[key]
        enumerate_faults(backend, pre, nm, ("event", uni[nm]), viol, cid, stats)
        st = store.decode_store(backend, pre)
        for eid in sorted(st)[:1]:
            dk = (key[0], eid)
            if dk not in seen_del:
                seen_del.add(dk)
                enumerate_faults(backend, pre, "delete_event(%s)" % eid[:8], ("delete", eid), viol, cid, stats)
    for v in viol:
        v["detail"] += " | shard first=%s" % first
    return {"id": "%s|first=%s" % (cid, first), "viol": viol, "outcome": sorted(res["states"]), "outcome_is_set": True,
            "evals": stats["faulted_runs"], "nontrivial": stats["faulted_runs"] > 0, "desc": describe(case),
            "extra": {"distinct_transitions": stats["transitions"], "mutation_points": stats["mutations"], "faulted_executions": stats["faulted_runs"]},
            "sample": {"backend": backend, "first": first, "transitions": stats["transitions"], "mutation_points": stats["mutations"],
                       "faulted_executions": stats["faulted_runs"]}}


def coverage(tier, agg):
    return {
        "rule": "transitions = distinct (store, event) pairs of a STORE BFS to depth %d over U7 (replaceable with two older versions, kinds 0, kind 1 "
                "with five indexable tags, kind 5 deleting two events, parameterized pair) plus delete_event from every reached state; for each the "
                "engine mutations are counted and EVERY index k gets an injected engine error and a process kill (plus the point right after "
                "commit); a case = one shard (first event); evaluations = faulted executions; distinct_nontrivial = shards with >= 1 faulted execution" % (
                    2 if tier == "quick" else 3),
        "backends": ["sql", "kv"],
    }


def replay(desc):
    r = run_case((desc["backend"], desc["first"], desc["depth"], desc.get("tier", "quick")))
    for v in r["viol"][:30]:
        print(v["clause"], v["detail"][:500])
    return r["viol"]
