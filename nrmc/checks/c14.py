"""C14 - role-based authorization is enforced on every read and write path.
Full matrix: every action->roles configuration over the role alphabet {a,r,w} (8 x 8), every token role set
(unauthenticated, a, r, w, rw, empty), both actions, both backends, stored and live delivery, three output
validator settings. Plus: every sequence of up to three role assignments reads back as last set."""
import json
import itertools

from .. import store, fakelmdb
from ..env import CLOCK
from ..harness import World
from ..universe import make_event, PK, SK
from . import c07

ID = "C14"
LEVEL = "model_checking"
ASSUMPTIONS = ["real nostr_relay code imported from /repo's working tree, driven through web.start_client / the storage API; SQLite runs for real behind a same-thread connection shim (bound to real aiosqlite by C06's conformance cases); LMDB is an in-memory double (bound to the real liblmdb by C10's conformance cases), msgpack is pip's pure-python codec; asyncio runs on a controlled virtual-time loop; tokens are obtained through the real NIP-42 AUTH handshake (valid answers; C15 covers invalid ones)"]
CHUNK = 2

ROLES = ["a", "r", "w"]
SUBSETS = ["".join(c) for n in range(4) for c in itertools.combinations(ROLES, n)]  # '', a, r, w, ar, aw, rw, arw
TOKENS = {"unauth": None, "tok_a": ("K1", "a"), "tok_r": ("K2", "r"), "tok_w": ("K3", "w"), "tok_rw": ("K4", "rw"), "tok_none": ("K5", "")}
RELAY_URL = "ws://relay.test"
PRE_A = make_event("A", 1, 100, [], "pre-stored by A")
PRE_B = make_event("B", 1, 101, [], "pre-stored by B")
OVS = {"none": None, "whitelist": "nostr_relay.recipe.homeserver.whitelist_output_validator", "reject_b": "nrmc.checks.c14.reject_author_b"}


# the recipe's validator depends on the *receiver's* token: K4 (token tok_rw) is whitelisted and sees everything
WHITELIST = [PK["A"], PK["K4"]]


def reject_author_b(event, context):
    return event.pubkey != PK["B"]


def ov_allows(ovname, event, token_pubkey):
    if ovname == "none":
        return True
    if ovname == "reject_b":
        return event["pubkey"] != PK["B"]
    wl = WHITELIST
    return event["pubkey"] in wl or token_pubkey in wl or event["kind"] == 10002


def cases(tier):
    out = []
    ss = SUBSETS if tier == "thorough" else ["", "a", "r", "w", "rw"]
    for backend in ("sql", "kv"):
        for s in ss:
            for q in ss:
                out.append(("matrix", backend, s, q, tier))
        # an action left out of the configuration keeps the default roles ('a': the anonymous role), it does not become open
        for x in ss:
            out.append(("matrix", backend, "~", x, tier))
            out.append(("matrix", backend, x, "~", tier))
        out.append(("matrix", backend, "~", "~", tier))
        out.append(("roles", backend, "", "", tier))
        out.append(("reauth", backend, "", "", tier))
    out += SCHEDMODE.cases(tier)
    return out


def describe(case):
    if case[0] == "sched":
        return SCHEDMODE.describe(case)
    return {"mode": case[0], "backend": case[1], "save": case[2], "query": case[3], "tier": case[4]}


def auth_event(key, challenge, now):
    return make_event(key, 22242, int(now), [["relay", RELAY_URL], ["challenge", challenge]], "")


_DUMPS = {}


def pre_dump(backend):
    """dump of a store holding PRE_A and PRE_B (built once per worker with a permissive configuration)"""
    if backend not in _DUMPS:
        w = World(backend, storage_options={"stats_interval": 1e15}, message_timeout=1e300)
        try:
            c = w.connect("c")
            w.run(1e6)
            for ev in (PRE_A, PRE_B):
                w.send("c", ["EVENT", ev], 1e6)
            _DUMPS[backend] = w.dump()
        finally:
            w.close()
    return _DUMPS[backend]


def frames(c, n0=0):
    out = []
    for k, _, p in c.transcript[n0:]:
        if k == "send":
            try:
                out.append(json.loads(p))
            except ValueError:
                out.append(["UNPARSEABLE", p])
    return out


def run_matrix(case):
    _, backend, save, query, tier = case
    viol = []
    cid = "matrix|%s" % backend
    n = 0
    dump0 = pre_dump(backend)
    actions = {}
    if save != "~":
        actions["save"] = save
    if query != "~":
        actions["query"] = query
    label_s, label_q = save, query
    save = "a" if save == "~" else save
    query = "a" if query == "~" else query
    for ovname, ovpath in OVS.items():
        cfg = {"authentication": {"enabled": True, "actions": dict(actions), "relay_urls": [RELAY_URL]},
               "output_validator": ovpath, "pubkey_whitelist": list(WHITELIST)}
        w = World(backend, config=cfg, storage_options={"stats_interval": 1e15}, message_timeout=1e300)
        label0 = "save=%s|query=%s|ov=%s" % (label_s or "-", label_q or "-", ovname)
        try:
            c07.load_dump(w, dump0)
            for tname, spec in TOKENS.items():
                if spec:
                    w.call(w.storage.set_auth_roles(PK[spec[0]], spec[1]), 1e6)
                    w.run(1e6)
            base_dump = w.dump()
            # a subscriber for live delivery: the first token that may query
            conns = {}
            for tname, spec in TOKENS.items():
                c = w.connect(tname, "1.1.1.%d" % (len(conns) + 1))
                w.run(1e6)
                fr = frames(c)
                if not fr or fr[0][0] != "AUTH":
                    viol.append({"case": cid, "clause": "challenge-sent", "sig": label0 + "|" + tname, "detail": "no AUTH challenge: %r" % fr[:1]})
                    continue
                if spec:
                    w.send(tname, ["AUTH", auth_event(spec[0], fr[0][1], CLOCK.now)], 1e6)
                conns[tname] = c
            live_marks = {}
            for tname, c in conns.items():
                spec = TOKENS[tname]
                roles = set(spec[1]) if spec else {"a"}
                tpk = PK[spec[0]] if spec else None
                label = label0 + "|" + tname
                # ---- REQ -------------------------------------------------------------------------
                n0 = len(c.transcript)
                w.send(tname, ["REQ", "q", {"kinds": [1, 20001]}], 1e6)
                n += 1
                fr = frames(c, n0)
                evs = [m for m in fr if m[0] == "EVENT"]
                eose = [m for m in fr if m[0] == "EOSE"]
                notices = [m for m in fr if m[0] == "NOTICE"]
                may_query = bool(roles & set(query))
                if may_query:
                    if len(eose) != 1:
                        viol.append({"case": cid, "clause": "authorised-query-served", "sig": label, "detail": "roles %r may query but got %r" % (sorted(roles), fr[:3])})
                    want = [e for e in (PRE_A, PRE_B) if ov_allows(ovname, e, tpk)]
                    got = [m[2]["id"] for m in evs]
                    for e in want:
                        if e["id"] not in got:
                            viol.append({"case": cid, "clause": "authorised-query-served", "sig": label + "|missing", "detail": "stored event by %s not served to %s" % (e["pubkey"][:6], tname)})
                else:
                    if evs or eose:
                        viol.append({"case": cid, "clause": "unauthorised-query-refused", "sig": label,
                                     "detail": "roles %r may not query (query roles %r) but received %d EVENT / %d EOSE" % (sorted(roles), query, len(evs), len(eose))})
                    if not notices or not str(notices[0][1]).startswith("restricted"):
                        viol.append({"case": cid, "clause": "told-restricted", "sig": label + "|req", "detail": "refused REQ answered by %r" % fr[:2]})
                for m in evs:
                    if not ov_allows(ovname, m[2], tpk):
                        viol.append({"case": cid, "clause": "output-validator-on-stored", "sig": label,
                                     "detail": "stored event by %s sent to %s although the output validator %s rejects it" % (m[2]["pubkey"][:6], tname, ovname)})
                live_marks[tname] = len(c.transcript)
            # ---- EVENT from every token; all subscribed connections observe live pushes ---------------
            for i, (tname, c) in enumerate(conns.items()):
                spec = TOKENS[tname]
                roles = set(spec[1]) if spec else {"a"}
                label = label0 + "|" + tname
                for author, kind in (("A", 1), ("B", 1), ("A", 20001)):
                    ev = make_event(author, kind, 1000 + 10 * i + (author == "B") + 2 * (kind != 1), [], "by %s via %s" % (author, tname))
                    before = w.dump()
                    marks = {t: len(cc.transcript) for t, cc in conns.items()}
                    w.send(tname, ["EVENT", ev], 1e6)
                    n += 1
                    fr = frames(c, marks[tname])
                    oks = [m for m in fr if m[0] == "OK"]
                    after = w.dump()
                    may_save = bool(roles & set(save))
                    stored = ev["id"] in store.decode_store(backend, after)
                    pushed_to = [t for t, cc in conns.items() for m in frames(cc, marks[t]) if m[0] == "EVENT" and m[2].get("id") == ev["id"]]
                    if may_save:
                        if not (oks and oks[0][2] is True and (stored or kind != 1)):  # an ephemeral event need not be stored
                            viol.append({"case": cid, "clause": "authorised-save-accepted", "sig": label + "|%s|%d" % (author, kind),
                                         "detail": "roles %r may save (save roles %r) but OK=%r stored=%s" % (sorted(roles), save, oks[:1], stored)})
                    else:
                        if stored or after != before:
                            viol.append({"case": cid, "clause": "unauthorised-save-not-stored", "sig": label + "|%s|%d" % (author, kind),
                                         "detail": "roles %r may not save (save roles %r) but the store changed (stored=%s)" % (sorted(roles), save, stored)})
                        if pushed_to:
                            viol.append({"case": cid, "clause": "unauthorised-save-not-broadcast", "sig": label + "|%s|%d" % (author, kind),
                                         "detail": "roles %r may not save but the event was pushed to %r" % (sorted(roles), pushed_to)})
                        if not (oks and oks[0][2] is False and str(oks[0][3]).startswith("restricted")):
                            viol.append({"case": cid, "clause": "told-restricted", "sig": label + "|event|%s|%d" % (author, kind), "detail": "refused EVENT answered by %r" % (oks[:1] or fr[:1])})
                    # live delivery respects the query permission and the output validator of each receiver
                    for t, cc in conns.items():
                        tspec = TOKENS[t]
                        troles = set(tspec[1]) if tspec else {"a"}
                        tpk = PK[tspec[0]] if tspec else None
                        got = [m for m in frames(cc, marks[t]) if m[0] == "EVENT" and m[2].get("id") == ev["id"]]
                        if got and not (troles & set(query)):
                            viol.append({"case": cid, "clause": "unauthorised-query-refused", "sig": label0 + "|live|" + t,
                                         "detail": "%s may not query but received a live push" % t})
                        if got and not ov_allows(ovname, ev, tpk):
                            viol.append({"case": cid, "clause": "output-validator-on-live", "sig": label0 + "|live|%s|%s" % (t, author),
                                         "detail": "live push of an event by %s reached %s although the output validator %s rejects it" % (author, t, ovname)})
                        if may_save and (stored or kind != 1) and (troles & set(query)) and ov_allows(ovname, ev, tpk) and len(got) != 1:
                            viol.append({"case": cid, "clause": "authorised-live-delivery", "sig": label0 + "|live|%s|%s" % (t, author),
                                         "detail": "%s holds a matching subscription and may see the event but got %d pushes" % (t, len(got))})
            # an event that is already stored, re-sent by a token that may not save: told 'restricted' like any other EVENT of that token
            stored_now = store.decode_store(backend, w.dump())
            dup = next((e for e in stored_now.values() if e["content"].startswith("by ")), None)
            if dup is not None:
                for tname, c in conns.items():
                    spec = TOKENS[tname]
                    roles = set(spec[1]) if spec else {"a"}
                    if roles & set(save):
                        continue
                    n0 = len(c.transcript)
                    before = w.dump()
                    w.send(tname, ["EVENT", dup], 1e6)
                    n += 1
                    oks = [m for m in frames(c, n0) if m[0] == "OK"]
                    if not (oks and oks[0][2] is False and str(oks[0][3]).startswith("restricted")) or w.dump() != before:
                        viol.append({"case": cid, "clause": "told-restricted", "sig": label0 + "|" + tname + "|stored-event",
                                     "detail": "roles %r may not save; re-sending an already stored event was answered by %r" % (sorted(roles), oks[:1])})
        finally:
            w.close()
    return viol, n


def run_reauth(case):
    """one connection changes its identity: what it may do follows the identity it holds when it asks (save = w, query = r)"""
    _, backend, _, _, tier = case
    viol = []
    cid = "reauth|%s" % backend
    n = 0
    cfg = {"authentication": {"enabled": True, "actions": {"save": "w", "query": "r"}, "relay_urls": [RELAY_URL]}}
    keys = {"r": "K2", "w": "K3", "rw": "K4", "none": "K5"}
    for first, second in itertools.permutations(keys, 2):
        w = World(backend, config=cfg, storage_options={"stats_interval": 1e15}, message_timeout=1e300)
        label = "%s->%s" % (first, second)
        try:
            for r, k in keys.items():
                w.call(w.storage.set_auth_roles(PK[k], "" if r == "none" else r), 1e6)
            w.run(1e6)
            pub = w.connect("pub", "9.9.9.1")
            w.run(1e6)
            w.send("pub", ["AUTH", auth_event("K4", frames(pub)[0][1], CLOCK.now)], 1e6)
            c = w.connect("c", "1.1.1.1")
            w.run(1e6)
            ch = frames(c)[0][1]
            opened = {}
            for step, who in enumerate((first, second)):
                w.send("c", ["AUTH", auth_event(keys[who], ch, CLOCK.now)], 1e6)
                n0 = len(c.transcript)
                sid = "s%d" % step
                w.send("c", ["REQ", sid, {"kinds": [1]}], 1e6)
                n += 1
                fr = frames(c, n0)
                served = any(m[0] == "EOSE" and m[1] == sid for m in fr)
                may = "r" in who
                opened[sid] = may
                if served != may:
                    viol.append({"case": cid, "clause": "authorised-query-served" if may else "unauthorised-query-refused", "sig": label + "|req%d" % step,
                                 "detail": "after AUTH as %s the REQ was %s (identities %s)" % (who, "served" if served else "refused", label)})
                if not may and not any(m[0] == "NOTICE" and str(m[1]).startswith("restricted") for m in fr):
                    viol.append({"case": cid, "clause": "told-restricted", "sig": label + "|req%d" % step, "detail": "refused REQ answered by %r" % fr[:2]})
                # a live event: only subscriptions that were granted receive it
                ev = make_event("A", 1, 2000 + step, [], "live %s %d" % (label, step))
                n0 = len(c.transcript)
                w.send("pub", ["EVENT", ev], 1e6)
                n += 1
                for m in frames(c, n0):
                    if m[0] == "EVENT" and not opened.get(m[1], False):
                        viol.append({"case": cid, "clause": "unauthorised-query-refused", "sig": label + "|live%d|%s" % (step, m[1]),
                                     "detail": "a live event was pushed for subscription %s, which was refused (identities %s)" % (m[1], label)})
                got = [m[1] for m in frames(c, n0) if m[0] == "EVENT" and m[2].get("id") == ev["id"]]
                for sid2, ok in opened.items():
                    if ok and sid2 == sid and got.count(sid2) != 1:
                        viol.append({"case": cid, "clause": "authorised-live-delivery", "sig": label + "|live%d|%s" % (step, sid2),
                                     "detail": "granted subscription %s received %d pushes (identities %s)" % (sid2, got.count(sid2), label)})
                # an EVENT by the connection itself
                own = make_event(keys[who], 1, 2100 + step, [], "own %s %d" % (label, step))
                n0 = len(c.transcript)
                before = w.dump()
                w.send("c", ["EVENT", own], 1e6)
                n += 1
                oks = [m for m in frames(c, n0) if m[0] == "OK"]
                may_save = "w" in who
                if may_save != bool(oks and oks[0][2] is True) or (not may_save and w.dump() != before):
                    viol.append({"case": cid, "clause": "authorised-save-accepted" if may_save else "unauthorised-save-not-stored", "sig": label + "|event%d" % step,
                                 "detail": "after AUTH as %s the EVENT was answered %r (identities %s)" % (who, oks[:1], label)})
        finally:
            w.close()
    return viol, n


# ---------------------------------------------------------------------------------------------------
# Several connections at once (SCHED): the permission of a message follows the identity of ITS connection, whatever another
# connection is doing at the same moment.
from ..schedmode import SchedMode  # noqa: E402
from ..env import TOKENS as TOKENSRC  # noqa: E402

S_CFG = {"anon_vs_writer": {"save": "w", "query": "a"}, "anon_vs_reader": {"save": "a", "query": "r"}, "two_writers_one_not": {"save": "w", "query": "a"}}
S_E1 = make_event("A", 1, 3001, [], "sent by the connection that may NOT save")
S_E2 = make_event("B", 1, 3002, [], "sent by the connection that may save")
_SCH = {}


def _s_setup(w):
    TOKENSRC.reset()
    for k, r in (("K2", "r"), ("K3", "w"), ("K5", "")):
        w.call(w.storage.set_auth_roles(PK[k], r), 1e6)
    w.run(1e6)
    TOKENSRC.reset()


def _s_challenges(name, backend):
    key = (name, backend)
    if key not in _SCH:
        w = World(backend, config={"authentication": {"enabled": True, "actions": S_CFG[name], "relay_urls": [RELAY_URL]}},
                  storage_options={"stats_interval": 1e15}, message_timeout=1e300)
        try:
            _s_setup(w)
            out = {}
            for cn in ("c1", "c2", "c3"):
                c = w.connect(cn, "1.1.1.%d" % (len(out) + 1))
                w.run(1e6)
                out[cn] = frames(c)[0][1]
            _SCH[key] = out
        finally:
            w.close()
    return _SCH[key]


def _s_script(name, backend):
    ch = _s_challenges(name, backend)
    if name == "anon_vs_writer":
        return [("c3", ["REQ", "s", {"kinds": [1]}]), ("c2", ["AUTH", auth_event("K3", ch["c2"], CLOCK.now)]), ("c1", ["EVENT", S_E1]), ("c2", ["EVENT", S_E2])]
    if name == "two_writers_one_not":
        return [("c3", ["REQ", "s", {"kinds": [1]}]), ("c2", ["AUTH", auth_event("K3", ch["c2"], CLOCK.now)]), ("c1", ["AUTH", auth_event("K5", ch["c1"], CLOCK.now)]),
                ("c1", ["EVENT", S_E1]), ("c2", ["EVENT", S_E2])]
    return [("c2", ["AUTH", auth_event("K2", ch["c2"], CLOCK.now)]), ("c1", ["REQ", "p", {"kinds": [1]}]), ("c2", ["REQ", "q", {"kinds": [1]}])]


def _s_build(name, backend, policy):
    from ..explorer import Scenario

    return Scenario("%s%s|%s" % (name, "@fair" if policy == "fair" else "", backend), backend, [("c1", "1.1.1.1"), ("c2", "1.1.1.2"), ("c3", "1.1.1.3")],
                    _s_script(name, backend), config={"authentication": {"enabled": True, "actions": S_CFG[name], "relay_urls": [RELAY_URL]}},
                    storage_options={"stats_interval": 1e15}, setup=_s_setup, horizon=60.0, policy=policy)


def _s_judge(x, name, backend, viol, cid, sig):
    w = x.world
    if name == "anon_vs_reader":
        f1 = frames(w.conns["c1"])
        f2 = frames(w.conns["c2"])
        if any(m[0] in ("EOSE", "EVENT") and m[1] == "p" for m in f1):
            viol.append({"case": cid, "clause": "unauthorised-query-refused", "sig": sig + "|c1", "detail": "the unauthenticated connection's REQ was served while another connection authenticated as a reader"})
        if not any(m[0] == "EOSE" and m[1] == "q" for m in f2):
            viol.append({"case": cid, "clause": "authorised-query-served", "sig": sig + "|c2", "detail": "the reader's REQ was not served: %r" % f2[-2:]})
        return
    have = store.decode_store(backend, w.dump())
    f1 = frames(w.conns["c1"])
    f2 = frames(w.conns["c2"])
    f3 = frames(w.conns["c3"])
    ok1 = [m for m in f1 if m[0] == "OK"]
    ok2 = [m for m in f2 if m[0] == "OK"]
    if (ok1 and ok1[0][2] is True) or S_E1["id"] in have:
        viol.append({"case": cid, "clause": "unauthorised-save-not-stored", "sig": sig + "|c1",
                     "detail": "the EVENT of the connection without the save role was answered %r, stored=%s" % (ok1[:1], S_E1["id"] in have)})
    elif not (ok1 and str(ok1[0][3]).startswith("restricted")):
        viol.append({"case": cid, "clause": "told-restricted", "sig": sig + "|c1", "detail": "refused EVENT answered by %r" % (ok1[:1] or f1[-1:])})
    if any(m[0] == "EVENT" and m[2].get("id") == S_E1["id"] for m in f3):
        viol.append({"case": cid, "clause": "unauthorised-save-not-broadcast", "sig": sig + "|c3", "detail": "the refused event was pushed to a subscriber"})
    if not (ok2 and ok2[0][2] is True and S_E2["id"] in have):
        viol.append({"case": cid, "clause": "authorised-save-accepted", "sig": sig + "|c2", "detail": "the writer's EVENT was answered %r, stored=%s" % (ok2[:1], S_E2["id"] in have)})


SCHEDMODE = SchedMode(S_CFG, _s_build, _s_judge)


ROLE_STRS = ["", "r", "rw", "RW"]


def run_roles(case):
    _, backend, _, _, tier = case
    viol = []
    cid = "roles|%s" % backend
    n = 0
    keys = [PK["K1"], PK["K2"]]
    ops = [(k, r) for k in keys for r in ROLE_STRS]
    depth = 3 if tier == "thorough" else 2
    w = World(backend, config={"authentication": {"enabled": True}}, storage_options={"stats_interval": 1e15}, message_timeout=1e300)
    try:
        empty = w.dump()
        seqs = [s for d in range(1, depth + 1) for s in itertools.product(range(len(ops)), repeat=d)]
        for seqi in seqs:
            for steps in itertools.product((0, 1), repeat=len(seqi) - 1):
                c07.load_dump(w, ([], [])) if False else None
                # reset role storage
                if backend == "sql":
                    import sqlite3

                    raw = sqlite3.connect(w.path, timeout=0, isolation_level=None)
                    raw.execute("DELETE FROM auth")
                    raw.close()
                else:
                    from sortedcontainers import SortedDict

                    fakelmdb._ENVS[w.path] = SortedDict(empty)
                CLOCK.now = 1_700_000_000.0
                last = {}
                for j, oi in enumerate(seqi):
                    if j:
                        CLOCK.now += steps[j - 1]
                    k, r = ops[oi]
                    w.call(w.storage.set_auth_roles(k, r), 1e6)
                    w.run(1e6)
                    last[k] = set(r.lower())
                n += 1
                sig = "%s|dt=%s" % (",".join("%s:%s" % ("K%d" % (keys.index(ops[i][0]) + 1), ops[i][1] or "-") for i in seqi), "".join(map(str, steps)))
                for k in keys:
                    got = w.call(w.storage.get_auth_roles(k), 1e6)
                    want = last.get(k, {"a"})
                    if set(got) != want:
                        viol.append({"case": cid, "clause": "roles-read-back-as-last-set", "sig": sig + "|get|K%d" % (keys.index(k) + 1),
                                     "detail": "get_auth_roles returned %r, last set %r | sequence %s" % (sorted(got), sorted(want), sig)})

                async def collect():
                    return [(pk, roles) async for pk, roles in w.storage.get_all_auth_roles()]

                allr = dict(w.call(collect(), 1e6))
                for k in keys:
                    if k in last and set(allr.get(k, {"<missing>"})) != last[k]:
                        viol.append({"case": cid, "clause": "roles-read-back-as-last-set", "sig": sig + "|all|K%d" % (keys.index(k) + 1),
                                     "detail": "get_all_auth_roles lists %r for the key, last set %r | sequence %s" % (allr.get(k), sorted(last[k]), sig)})
                if len(allr) != len(last):
                    viol.append({"case": cid, "clause": "roles-read-back-as-last-set", "sig": sig + "|all|count",
                                 "detail": "get_all_auth_roles lists %d keys, %d were assigned | sequence %s" % (len(allr), len(last), sig)})
    finally:
        CLOCK.now = 1_700_000_000.0
        w.close()
    return viol, n


def run_case(case):
    if case[0] == "sched":
        return SCHEDMODE.run(case)
    if case[0] == "matrix":
        viol, n = run_matrix(case)
    elif case[0] == "reauth":
        viol, n = run_reauth(case)
    else:
        viol, n = run_roles(case)
    cid = "%s|%s|%s|%s" % (case[0], case[1], case[2] or "-", case[3] or "-")
    return {"id": cid, "viol": viol, "outcome": None, "evals": max(n, 1), "states": max(n, 1), "transitions": max(n, 1), "nontrivial": n > 0,
            "desc": describe(case), "extra": {"%s_commands" % case[0]: n},
            "sample": {"mode": case[0], "backend": case[1], "save": case[2], "query": case[3], "commands": n}}


def coverage(tier, agg):
    ss = SUBSETS if tier == "thorough" else ["", "a", "r", "w", "rw"]
    return {
        "rule": ("matrix: save roles x query roles over %r (%d x %d configurations, plus each action left unconfigured = default role 'a') x token roles {unauthenticated, a, r, w, rw, none} obtained by real "
                "AUTH handshakes x {REQ, EVENT by two authors, an ephemeral EVENT} x output validator {none, recipe whitelist, reject-one-author} on both backends; every "
                "connection also holds a subscription, so each accepted EVENT exercises live delivery to every token; oracle: stored/broadcast iff "
                "roles intersect save roles (else OK=false 'restricted', store and other transcripts unchanged), served iff roles intersect query "
                "roles (else NOTICE 'restricted', no EVENT/EOSE), every EVENT frame satisfies the configured output validator (stored and live); "
                "after the matrix an already stored event is re-sent by every token that may not save (told 'restricted' all the same); reauth: one connection authenticates as each ordered pair of {r, w, rw, no role} and after each AUTH sends a REQ and an EVENT and sees "
                "a live event: what is granted follows the identity held at that moment, a refused REQ's subscription never receives pushes; roles: all sequences of <= %d assignments over 2 keys x {'', r, rw, RW} with clock steps {0,1}s read back via get_auth_roles and "
                "get_all_auth_roles. states/transitions = commands judged." + SCHEDMODE.rule() + ": an unauthenticated (or role-less) connection and a writer / reader act "
                "at the same moment; the permission of every message follows the identity of its own connection") % (ss, len(ss), len(ss), 3 if tier == "thorough" else 2),
        "backends": ["sql", "kv"],
    }


def replay(desc):
    if desc.get("mode") == "sched":
        r = run_case(SCHEDMODE.from_desc(desc))
    else:
        r = run_case((desc["mode"], desc["backend"], desc["save"], desc["query"], desc.get("tier", "quick")))
    for v in r["viol"][:30]:
        print(v["clause"], v["detail"][:500])
    return r["viol"]
