"""C18 - rate limits bound admitted messages per window and do not over-block.
Explicit-state BFS over the real RateLimiter object under an injected clock; the product state is
(limiter's own deques, reference history of admitted messages), deduplicated on a canonical form
(times relative to now, entries older than the longest interval dropped from the *reference* part).
"""
import collections
import itertools

ID = "C18"
LEVEL = "model_checking"
ASSUMPTIONS = ["the limiter's clock (time.perf_counter as bound in nostr_relay.rate_limiter) is replaced by the harness clock",
               "time steps are binary fractions so that floating-point clock arithmetic is exact"]
CHUNK = 1

SPEC = "9.9.9.9"
SPEC6 = "2001:db8::1"

CONFIGS = {
    "ip_1s": {"ip": {"EVENT": "1/s"}},
    "ip_2s": {"ip": {"EVENT": "2/s", "REQ": "1/s"}},
    "ip_2s_3m": {"ip": {"EVENT": "2/s,3/m"}},
    "ip_1s_2m_3h": {"ip": {"EVENT": "1/s,2/m,3/h"}},
    "global_2s": {"global": {"EVENT": "2/s"}},
    "global_2s_ip_1s": {"global": {"EVENT": "2/s"}, "ip": {"EVENT": "1/s"}},
    "global_3m_ip_2s": {"global": {"EVENT": "3/m"}, "ip": {"EVENT": "2/s", "REQ": "2/s"}},
    "spec_exempt": {"ip": {"EVENT": "1/s"}, SPEC: {"EVENT": "-1/s"}},
    "spec_looser": {"ip": {"EVENT": "1/s"}, "global": {"EVENT": "2/s"}, SPEC: {"EVENT": "3/s"}},
    "spec_other_cmd": {"ip": {"EVENT": "1/s", "REQ": "1/s"}, SPEC: {"REQ": "2/s"}},
    "spec_v6": {"ip": {"EVENT": "1/s"}, SPEC6: {"EVENT": "2/s"}},
    "spec_longer_interval": {"ip": {"EVENT": "2/s"}, SPEC: {"EVENT": "2/m"}},
    "ip_2m": {"ip": {"EVENT": "2/m"}},
    # a global window longer than every per-address window (what cleanup() may forget is bounded by the longest interval of ANY scope)
    "global_2m_ip_5s": {"global": {"EVENT": "2/m"}, "ip": {"EVENT": "5/s"}},
    # the longer window is the stricter one (n does not grow with the interval)
    "ip_3s_2m": {"ip": {"EVENT": "3/s,2/m"}},
    # two rules that name the same interval (both apply), and the other documented spellings of the units
    "ip_dup_interval": {"ip": {"EVENT": "1/s,3/sec"}},
    "ip_dup_interval_rev": {"ip": {"EVENT": "3/second,2/S"}},
    "ip_spellings": {"ip": {"EVENT": "2/SEC", "REQ": "1/second"}},
    "ip_min_spellings": {"ip": {"EVENT": "1/sec,2/min,3/minute"}},
}
DTS = [0.0, 0.5, 1.0, 1.5, 59.5, 60.5]
DEEPER = {"ip_2m"}  # small alphabets explored one step deeper (a wiped minute window needs five steps to show)
UNIT = {"s": 1, "second": 1, "sec": 1, "m": 60, "minute": 60, "min": 60, "h": 3600, "hour": 3600, "hr": 3600}


def parse_rules(cfg):
    out = {}
    for scope, cmds in cfg.items():
        out[scope] = {}
        for cmd, spec in cmds.items():
            rules = []
            for r in spec.split(","):
                n, u = r.split("/")
                rules.append((UNIT[u.lower()], int(n)))
            out[scope][cmd] = rules
    return out


def alphabet(cfgname, tier):
    cfg = CONFIGS[cfgname]
    addrs = ["1.1.1.1", "2.2.2.2"]
    if SPEC in cfg:
        addrs = ["1.1.1.1", SPEC]
    if SPEC6 in cfg:
        addrs = ["1.1.1.1", SPEC6]
    cmds = sorted({c for s in cfg.values() for c in s})
    longest = max(i for s in parse_rules(cfg).values() for rs in s.values() for i, n in rs)
    dts = [0.0, 0.5, 1.0, 1.5]
    if longest >= 60:
        dts += [59.5, 60.5]
    if longest >= 3600:
        dts += [3540.0, 3600.5]
    if tier == "quick" and len(dts) > 4:
        dts = [0.0, 0.5, 1.0, 59.5, 60.5][: 5]
    # "CLEANUP" = some connection closes at that moment (web.py calls rate_limiter.cleanup() in its finally block): no message at all
    return [(dt, a, c) for dt in dts for a in addrs for c in cmds] + [(dt, addrs[0], "CLEANUP") for dt in (0.0, 1.5, 60.5)]


WEB_RULES = {"ip": {"EVENT": "2/s", "REQ": "1/s"}, "global": {"CLOSE": "1/s"}}


def run_web(case):
    """the limiter's call sites in web.start_client: every command is either processed or answered 'rate-limited'; a refused
    command has no effect; the reference is the same sliding window over the commands the handler let through"""
    import json
    import itertools
    from ..harness import World
    from ..universe import make_event

    _, _, depth, tier = case
    viol = []
    n = 0
    evs = [make_event("A", 1, 700 + i, [], "rl %d" % i) for i in range(6)]
    alpha = ["EVENT", "REQ", "CLOSE", "WAIT", "RECONNECT"]  # RECONNECT: the connection ends and the same address connects again: limits are per address
    for seqn in itertools.product(alpha, repeat=depth):
        w = World("kv", rate_limits=WEB_RULES, storage_options={"stats_interval": 1e15}, message_timeout=1e300)
        try:
            c = w.connect("c", "1.1.1.1")
            w.run(1e6)
            admitted = []  # (virtual time, command)
            ei = 0
            for j, cmd in enumerate(seqn):
                h = ",".join(seqn[: j + 1])
                if cmd == "WAIT":
                    w.loop.advance(1.0)
                    continue
                if cmd == "RECONNECT":
                    c.drop()
                    w.run(1e6)
                    w.conns.pop("c", None)
                    c = w.connect("c", "1.1.1.1")
                    w.run(1e6)
                    continue
                now = w.loop.time()
                n0 = len(c.transcript)
                if cmd == "EVENT":
                    fr = ["EVENT", evs[ei]]
                    ei += 1
                elif cmd == "REQ":
                    fr = ["REQ", "s%d" % j, {"kinds": [1], "limit": 1}]
                else:
                    fr = ["CLOSE", "s0"]
                w.send("c", fr, 1e6)
                n += 1
                sent = [json.loads(p) for k, _, p in c.transcript[n0:] if k == "send"]
                limited = any((m[0] == "OK" and m[2] is False and "rate-limited" in m[3]) or (m[0] == "NOTICE" and "rate-limited" in m[1]) for m in sent)
                rules = {"EVENT": (1, 2), "REQ": (1, 1), "CLOSE": (1, 1)}[cmd]
                inwin_half = sum(1 for t, cc in admitted if cc == cmd and now - t < rules[0])
                inwin_closed = sum(1 for t, cc in admitted if cc == cmd and now - t <= rules[0])
                if limited and inwin_closed < rules[1]:
                    viol.append({"case": "web", "clause": "refused-only-when-a-rule-is-full", "sig": h, "detail": "command refused as rate-limited with %d admitted in the window | seq=%s" % (inwin_closed, h)})
                if not limited and inwin_half >= rules[1]:
                    viol.append({"case": "web", "clause": "never-more-than-n-per-window", "sig": h, "detail": "command processed although %d were admitted in the window | seq=%s" % (inwin_half, h)})
                if not limited:
                    admitted.append((now, cmd))
                if cmd == "EVENT":
                    oks = [m for m in sent if m[0] == "OK"]
                    stored = fr[1]["id"] in {k[1:].hex() for k, v in w.dump() if k[:1] == b"\x00" and len(k) == 33}
                    if len(oks) != 1 or (oks[0][2] is True) != stored or (limited and stored):
                        viol.append({"case": "web", "clause": "limited-command-has-no-effect", "sig": h, "detail": "EVENT: frames %r stored=%s limited=%s | seq=%s" % (sent[:2], stored, limited, h)})
                if cmd == "REQ" and limited and any(m[0] in ("EVENT", "EOSE") for m in sent):
                    viol.append({"case": "web", "clause": "limited-command-has-no-effect", "sig": h, "detail": "rate-limited REQ was served | seq=%s" % h})
        finally:
            w.close()
    uniq = {}
    for v in viol:
        uniq.setdefault((v["clause"], v["sig"]), v)
    return {"id": "web|depth=%d" % depth, "viol": list(uniq.values()), "outcome": "web", "states": n, "transitions": n, "evals": n, "nontrivial": True,
            "desc": describe(case), "extra": {"web_commands": n}, "sample": {"case": "web", "commands": n}}


def cases(tier):
    out = [("__web__", (0.0, "1.1.1.1", "EVENT"), 4 if tier == "quick" else 5, tier)]
    depth = 4 if tier == "quick" else 5
    for cfgname in CONFIGS:
        d = depth + (1 if cfgname in DEEPER else 0)
        for first in alphabet(cfgname, tier):
            out.append((cfgname, first, d, tier))
    out += ACCEPT.cases(tier)
    return out


def describe(case):
    if case[0] == "accept":
        return ACCEPT.describe(case)
    return {"config": case[0], "first": list(case[1]), "depth": case[2], "tier": case[3]}


class Clk:
    def __init__(self):
        self.t = 1000.0

    def __call__(self):
        return self.t


def applicable(rules, addr, cmd):
    """property wording: a specific-address rule overrides the generic ones (for the commands it names)"""
    if addr in rules and cmd in rules[addr]:
        return [(addr, rules[addr][cmd])]
    out = []
    for scope in ("global", "ip"):
        if scope in rules and cmd in rules[scope]:
            out.append((scope, rules[scope][cmd]))
    return out


# ---------------------------------------------------------------------------------------------------
# Through the websocket resource (NostrAPI.on_websocket): connections of two addresses whose handshakes overlap; every message is charged
# to the address of the connection that sent it.
import json  # noqa: E402

from ..schedmode import SchedMode  # noqa: E402

A_RULES = {"ip": {"REQ": "1/s", "EVENT": "2/s"}, "3.3.3.3": {"REQ": "-1/s"}}
A_SCRIPTS = {
    "two_addresses": ([("x", "1.1.1.1"), ("y", "2.2.2.2")], [("x", ["REQ", "a", {"kinds": [1], "limit": 1}]), ("x", ["REQ", "b", {"kinds": [1], "limit": 1}]),
                                                            ("y", ["REQ", "c", {"kinds": [1], "limit": 1}])],
                      {("x", "a"): True, ("x", "b"): False, ("y", "c"): True}),
    "exempt_and_limited": ([("x", "3.3.3.3"), ("y", "2.2.2.2")], [("y", ["REQ", "a", {"kinds": [1], "limit": 1}]), ("x", ["REQ", "b", {"kinds": [1], "limit": 1}]),
                                                                 ("x", ["REQ", "c", {"kinds": [1], "limit": 1}]), ("y", ["REQ", "d", {"kinds": [1], "limit": 1}])],
                           {("y", "a"): True, ("x", "b"): True, ("x", "c"): True, ("y", "d"): False}),
}


def _a_build(name, backend, policy):
    from ..explorer import Scenario

    conns, script, expect = A_SCRIPTS[name]

    def connect(w, cn, addr):
        return w.connect_via_resource(cn, addr)

    return Scenario("%s%s|%s" % (name, "@fair" if policy == "fair" else "", backend), backend, conns, script, config={"message_timeout": 1e300},
                    storage_options={"stats_interval": 1e15}, rate_limits=A_RULES, connect=connect, horizon=0.5, allow_timer_deviation=False, policy=policy)


def _a_judge(x, name, backend, viol, cid, sig):
    conns, script, expect = A_SCRIPTS[name]
    for (cn, sid), want in expect.items():
        c = x.world.conns[cn]
        served = False
        limited = False
        for k, _, p in c.transcript:
            if k == "send":
                try:
                    m = json.loads(p)
                except ValueError:
                    continue
                if m[0] == "EOSE" and m[1] == sid:
                    served = True
        notices = sum(1 for k, _, p in c.transcript if k == "send" and "rate-limited" in p)
        if want and not served:
            viol.append({"case": cid, "clause": "refused-only-when-a-rule-is-full", "sig": sig + "|%s|%s" % (cn, sid),
                         "detail": "%s's REQ %s was not served although its own address has not used up any rule (messages are charged per connection address)" % (cn, sid)})
        if not want and served:
            viol.append({"case": cid, "clause": "never-more-than-n-per-window", "sig": sig + "|%s|%s" % (cn, sid),
                         "detail": "%s's REQ %s was served although its address had already used its budget in this instant (%d rate-limited notices)" % (cn, sid, notices)})


ACCEPT = SchedMode(A_SCRIPTS, _a_build, _a_judge, backends=("kv",), tag="accept")


def run_case(case):
    if case[0] == "accept":
        return ACCEPT.run(case)
    if case[0] == "__web__":
        return run_web(case)
    cfgname, first, depth, tier = case
    from .. import env

    ns = env.boot()
    rl = ns.rate_limiter
    clk = Clk()
    rl.perf_counter = clk
    cfg = CONFIGS[cfgname]
    rules = parse_rules(cfg)
    alpha = alphabet(cfgname, tier)
    longest = max(i for s in rules.values() for rs in s.values() for i, n in rs)
    lim = rl.RateLimiter(cfg)
    viol = []
    cid = "%s|first=%s" % (cfgname, first)

    def save():
        return {k: {c: tuple(d) for c, d in v.items()} for k, v in lim.recent_commands.items()}

    def restore(st, now):
        lim.recent_commands.clear()
        for k, v in st.items():
            for c, d in v.items():
                lim.recent_commands[k][c] = collections.deque(d)
        clk.t = now + lim._starttime + 0.0

    def canon(st, hist, now, ghost=()):
        a = tuple(sorted((repr(k), c, tuple(round(now - t, 3) for t in d if now - t <= longest + 2)) for k, v in st.items() for c, d in v.items() if d))
        b = tuple(sorted((ad, c, round(now - t, 3)) for (t, ad, c) in hist if now - t <= longest + 2))
        g = tuple(sorted((ad, c, round(now - t, 3)) for (t, ad, c) in ghost if now - t <= longest + 2))
        return (a, b, g)

    stats = {}

    def step(st, hist, now, act, path, ghost=()):
        """ghost: messages that were refused by the ip rule after the global rule had let them pass (the mechanism of
        known finding KF-C18-global-counts-refused: the global deque records them although they were not let through)"""
        dt, addr, cmd = act
        now2 = now + dt
        restore(st, now2)
        if cmd == "CLEANUP":
            try:
                lim.cleanup()
            except Exception:
                # an exception at disconnect is C19's business (nothing may escape the connection handler); for this property the
                # limiter's state simply stays as it was
                stats["cleanup_raised"] = stats.get("cleanup_raised", 0) + 1
                restore(st, now2)
            return save(), hist, now2, False, ghost
        try:
            limited = lim.is_limited(addr, [cmd])
        except Exception as e:
            viol.append({"case": cfgname, "clause": "refused-only-when-a-rule-is-full", "sig": "raises:" + ";".join("%g,%s,%s" % a for a in path + [act]),
                         "detail": "is_limited raised %r: the message is neither admitted nor refused by a rule | %s | seq=%s" % (
                             e, cfgname, ";".join("%g,%s,%s" % a for a in path + [act]))})
            restore(st, now2)
            return save(), hist, now2, True, ghost
        st2 = save()
        app = applicable(rules, addr, cmd)
        must_refuse = False
        may_refuse = False
        explained = False
        global_full_with_ghosts = False
        ip_full = False
        for scope, rs in app:
            for interval, n in rs:
                if n < 0:
                    continue
                # the global budget is shared by the addresses the global rule applies to (an address with its own
                # rule for this command is governed by that rule only)
                same = [t for (t, ad, c) in hist if c == cmd and (
                    (scope == "global" and any(sc == "global" for sc, _ in applicable(rules, ad, c))) or (scope != "global" and ad == addr))]
                half = sum(1 for t in same if now2 - t < interval)
                closed = sum(1 for t in same if now2 - t <= interval)
                if half >= n:
                    must_refuse = True
                if closed >= n:
                    may_refuse = True
                    if scope != "global":
                        ip_full = True
                if scope == "global":
                    gh = sum(1 for (t, ad, c) in ghost if c == cmd and now2 - t <= interval)
                    if closed < n <= closed + gh:
                        global_full_with_ghosts = True
        p = ";".join("%g,%s,%s" % a for a in path + [act])
        if limited and not may_refuse and global_full_with_ghosts:
            viol.append({"case": cfgname, "clause": "refused-only-when-a-rule-is-full[global-budget-used-by-refused-messages]", "sig": "shard=%s" % (first,),
                         "detail": "message refused because the global deque also holds messages that the ip rule refused | %s | seq=%s" % (cfgname, p)})
        elif limited and not may_refuse:
            viol.append({"case": cfgname, "clause": "refused-only-when-a-rule-is-full", "sig": p,
                         "detail": "message refused although no applicable rule has n admitted messages in its interval | %s | seq=%s" % (cfgname, p)})
        if not limited and must_refuse:
            viol.append({"case": cfgname, "clause": "never-more-than-n-per-window", "sig": p,
                         "detail": "message admitted although an applicable rule already has n admitted messages inside its interval | %s | seq=%s" % (cfgname, p)})
        hist2 = hist + ((now2, addr, cmd),) if not limited else hist
        ghost2 = ghost
        if limited and ip_full and any(sc == "global" for sc, _ in app):
            # would the global rule have let it pass? (then the implementation has recorded it there)
            g_ok = True
            for scope, rs in app:
                if scope == "global":
                    for interval, n in rs:
                        cnt = sum(1 for (t, ad, c) in hist if c == cmd and now2 - t < interval and any(sc == "global" for sc, _ in applicable(rules, ad, c)))
                        cnt += sum(1 for (t, ad, c) in ghost if c == cmd and now2 - t < interval)
                        if n >= 0 and cnt >= n:
                            g_ok = False
            if g_ok:
                ghost2 = ghost + ((now2, addr, cmd),)
        # boundedness: the deques this call worked on hold at most what the configured rates can admit inside the
        # longest interval (+1 slack); an exempting rule (n = -1) admits without bound, so only time-boundedness is judged there
        import ipaddress

        touched = {"global", ipaddress.ip_address(addr).packed}
        for k, v in st2.items():
            if k not in touched:
                continue
            d = v.get(cmd)
            if not d:
                continue
            rs_all = [r for sc, cm in rules.items() if cmd in cm and (sc == "global") == (k == "global") for r in cm[cmd]]
            if not rs_all:
                continue
            longest_c = max(i for i, n in rs_all)
            if any(n < 0 for i, n in rs_all):
                stale = [t for t in d if now2 - t > longest_c]
                if stale:
                    viol.append({"case": cfgname, "clause": "state-bounded-by-rates", "sig": p,
                                 "detail": "deque for %r/%s keeps %d timestamps older than its longest interval | %s | seq=%s" % (k, cmd, len(stale), cfgname, p)})
                continue
            bound = 1 + sum(n for i, n in rs_all)
            if len(d) > bound:
                viol.append({"case": cfgname, "clause": "state-bounded-by-rates", "sig": p,
                             "detail": "deque for %r/%s holds %d timestamps (configured rates allow at most %d) | %s | seq=%s" % (k, cmd, len(d), bound, cfgname, p)})
        return st2, hist2, now2, limited, ghost2

    lim.recent_commands.clear()
    st0, hist0, now0 = save(), (), 0.0
    st, hist, now, _, gh = step(st0, hist0, now0, first, [])
    seen = {canon(st, hist, now, gh)}
    frontier = collections.deque([(st, hist, now, [first], gh)])
    transitions = 1
    outcomes = set()
    while frontier:
        st, hist, now, path, gh = frontier.popleft()
        if len(path) >= depth:
            continue
        for act in alpha:
            st2, hist2, now2, limited, gh2 = step(st, hist, now, act, path, gh)
            transitions += 1
            outcomes.add(limited)
            k = canon(st2, hist2, now2, gh2)
            if k not in seen:
                seen.add(k)
                frontier.append((st2, hist2, now2, path + [act], gh2))
    # unexplained violations: every violating sequence is reported (exact ids); the explained class of the known finding is
    # reported once per shard (its sig is the shard), with the shortest witness in the detail
    best = {}
    for v in viol:
        k = (v["clause"], v["sig"])
        b = best.get(k)
        if b is None or len(v["detail"]) < len(b["detail"]):
            best[k] = v
    nviol = collections.Counter(v["clause"] for v in viol)
    out_v = list(best.values())
    return {"id": cid, "viol": out_v, "outcome": "states=%d" % len(seen), "states": len(seen), "transitions": transitions, "evals": transitions,
            "nontrivial": len(outcomes) == 2, "desc": describe(case),
            "extra": dict([("violating_transitions_" + k, n) for k, n in nviol.items()] + list(stats.items())),
            "sample": {"case": cid, "states": len(seen), "transitions": transitions, "both_decisions_seen": len(outcomes) == 2}}


def coverage(tier, agg):
    return {
        "rule": "BFS over (time step, address, command) sequences on the real RateLimiter for %d rule configurations (global / ip / specific "
                "address incl. exemption -1, IPv6 specific address, rules for another command); time steps {0,0.5,1,1.5,59.5,60.5,(3540,3600.5)} s; "
                "depth %d; oracle = sliding-window reference over the admitted history (admit forbidden if a rule has n in the half-open window, "
                "refusal justified only if a rule has n in the closed window, exactly-one-interval-apart is free), deque length bounded by the "
                "configured rates; non-trivial case = shard in which both decisions occur; accept: connections of two addresses through the websocket "
                "resource (origin check, ACCEPT limit, ws.accept(), start_client) with overlapping handshakes, every schedule with <= 1 deviation from both "
                "base schedules: each REQ is charged to the address of its own connection" % (len(CONFIGS), 4 if tier == "quick" else 5),
        "configs": sorted(CONFIGS),
    }


def replay(desc):
    if desc.get("mode") == "accept":
        r = run_case(ACCEPT.from_desc(desc))
    else:
        r = run_case((desc["config"], tuple(desc["first"]), desc["depth"], desc.get("tier", "quick")))
    for v in r["viol"]:
        print(v["clause"], v["detail"])
    return r["viol"]
