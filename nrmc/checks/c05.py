"""C05 - a new event reaches exactly the matching open subscriptions, once each.
Part 1 (sched): deviation-bounded schedule exploration of fan-out scenarios on both backends; oracle with
interval semantics (R2): only 'surely open' / 'surely closed' situations are judged.
Part 2 (table): live matching == stored matching: for every (event, single filter) pair of the QUERY
language, the decision of the live matcher (a real open subscription receives the event) is compared
with the stored answer of the same filter queried afterwards."""
import json

from .. import refmodel as R, explorer, seq, qtable as Q
from ..explorer import Scenario, DROP
from ..universe import make_event, PK

ID = "C05"
LEVEL = "model_checking"
ASSUMPTIONS = ["real nostr_relay code imported from /repo's working tree, driven through web.start_client / the storage API; SQLite runs for real behind a same-thread connection shim (bound to real aiosqlite by C06's conformance cases); LMDB is an in-memory double (bound to the real liblmdb by C10's conformance cases), msgpack is pip's pure-python codec; asyncio runs on a controlled virtual-time loop; scheduling points as described in nrmc/explorer.py (asyncio batch structure, thread completions between handles)"]
CHUNK = 1

P0 = make_event("A", 1, 90, [], "pre-stored 0")
P1 = make_event("A", 1, 91, [], "pre-stored 1")
E1 = make_event("B", 1, 200, [], "live kind 1 by B")
E2 = make_event("B", 2, 201, [], "live kind 2 by B")
E3 = make_event("A", 1, 202, [], "live kind 1 by A")
EPH = make_event("B", 20001, 203, [], "ephemeral")
B = PK["B"]

SCENARIOS = {
    "S1_basic": dict(conns=("c1", "c2"), script=[("c1", ["REQ", "x", {"kinds": [1]}]), ("c2", ["EVENT", E1]), ("c2", ["EVENT", E2])]),
    "S2_subscribe_during_round": dict(conns=("c1", "c2"), script=[("c2", ["EVENT", E1]), ("c1", ["REQ", "x", {"kinds": [1]}]), ("c2", ["EVENT", E3])]),
    "S3_replace_while_query_runs": dict(conns=("c1", "c2"), script=[("c1", ["REQ", "x", {"kinds": [1]}]), ("c1", ["REQ", "x", {"kinds": [2]}]),
                                                                   ("c2", ["EVENT", E1]), ("c2", ["EVENT", E2])]),
    "S4_close_or_drop_between_accept_and_push": dict(conns=("c1", "c2"), script=[("c1", ["REQ", "x", {"kinds": [1]}]), ("c2", ["EVENT", E1]),
                                                                                ("c1", ["CLOSE", "x"]), ("c2", ["EVENT", E3])], allow_drop=("c1",)),
    "S5_three_subscriptions": dict(conns=("c1", "c2", "c3"), script=[("c1", ["REQ", "x", {"kinds": [1]}]), ("c1", ["REQ", "y", {"authors": [B]}]),
                                                                    ("c3", ["REQ", "z", {"kinds": [2]}]), ("c2", ["EVENT", E1])]),
    "S6_duplicate_submission": dict(conns=("c1", "c2"), script=[("c1", ["REQ", "x", {"kinds": [1]}]), ("c2", ["EVENT", E1]), ("c2", ["EVENT", E1])]),
    "S7_ephemeral": dict(conns=("c1", "c2"), script=[("c1", ["REQ", "x", {"kinds": [20001]}]), ("c2", ["EVENT", EPH])]),
    "S9_same_event_from_two_connections": dict(conns=("c1", "c2", "c3"), script=[("c1", ["REQ", "x", {"kinds": [1]}]), ("c2", ["EVENT", E1]), ("c3", ["EVENT", E1])]),
    "S10_registry_changes_during_fanout": dict(conns=("c1", "c2", "c3", "c4"), script=[("c1", ["REQ", "x", {"kinds": [1]}]), ("c4", ["REQ", "v", {"kinds": [1]}]),
                                                                                   ("c2", ["EVENT", E1]), ("c3", ["REQ", "z", {"kinds": [1]}]), ("c2", ["EVENT", E3])],
                                               allow_drop=("c4",)),
    # two live connections from ONE address whose connection ids collide (the id is the address plus 16 random bits): they stay two
    # clients - each keeps its own subscription x, and the one that stays keeps receiving after the other one left
    "S11_colliding_connection_ids": dict(conns=("c1", "c2", "c3"), script=[("c1", ["REQ", "x", {"kinds": [1]}]), ("c2", ["REQ", "x", {"kinds": [1]}]),
                                                                        ("c3", ["EVENT", E1]), ("c2", DROP), ("c3", ["EVENT", E3])],
                                        same_addr=("c1", "c2"), force_token="abcd"),
    "S8_stalled_subscriber": dict(conns=("c1", "c2"), script=[("c1", ["REQ", "x", {"kinds": [1]}]), ("c2", ["EVENT", E1]), ("c2", ["EVENT", E3])], stall=("c1",)),
}
ADDR = {"c1": "1.1.1.1", "c2": "2.2.2.2", "c3": "3.3.3.3", "c4": "4.4.4.4"}


def _setup_store(w):
    from ..env import TOKENS as _T

    _T.forced = None  # (a scenario that forces colliding connection ids sets it after this)
    f = w.connect("setup", "9.9.9.9")
    w.run(1e6)
    for ev in (P0, P1):
        w.send("setup", ["EVENT", ev], 1e6)
    f.drop()
    w.run(1e6)
    del w.conns["setup"]
    # non-vacuity: the scenario's pre-stored events really are in the store
    from ..store import decode_store
    from ..env import HarnessError

    have = decode_store(w.backend, w.dump())
    missing = [e["id"][:8] for e in (P0, P1) if e["id"] not in have]
    if missing:
        raise HarnessError("scenario setup did not store %r" % missing)


def make_scenario(name, backend):
    base, _, policy = name.partition("@")
    d = SCENARIOS[base]
    addr = dict(ADDR)
    for c in d.get("same_addr", ()):
        addr[c] = "7.7.7.7"
    setup = _setup_store
    finish = None
    if d.get("force_token"):
        from ..env import TOKENS

        def setup(w, tok=d["force_token"]):
            _setup_store(w)
            TOKENS.forced = tok

        def finish(w, x):
            TOKENS.forced = None

    return Scenario("%s|%s" % (name, backend), backend, [(c, addr[c]) for c in d["conns"]], d["script"],
                    storage_options={"stats_interval": 1e15}, allow_drop=d.get("allow_drop", ()), stall=d.get("stall", ()),
                    setup=setup, horizon=30.0, policy=policy or "actor", finish=finish)


def cases(tier):
    out = []
    from .. import env

    env.boot()
    bound = 1 if tier == "quick" else 2
    for backend in ("sql", "kv"):
        for name in [n + sfx for n in SCENARIOS for sfx in ("", "@fair")]:
            scn = make_scenario(name, backend)
            out.append(("sched", backend, name, (), tier))
            firsts, npts = explorer.first_level(scn)
            for p in firsts:
                out.append(("sched", backend, name, tuple(p), tier))
    names = list(Q.U1())
    for backend in ("sql", "kv"):
        for nm in names:
            out.append(("table", backend, nm, (), tier))
    return out


def describe(case):
    return {"mode": case[0], "backend": case[1], "name": case[2], "prefix": list(case[3]), "tier": case[4]}


# ---------------------------------------------------------------------------------------------------
def timeline(w):
    """-> subs: list of dict(conn, sid, filters, t_req, t_open, t_end_start, t_end, eose_seq), events: list of dict(ev, t_recv, t_ok, ok)"""
    subs = []
    events = []
    for cn, c in w.conns.items():
        cur = {}  # sid -> sub dict (current generation)
        pending = []  # subs whose REQ was read but processing not finished
        ending = []
        delivered = []  # FIFO of (seq, idle) of delivered-but-not-yet-read frames
        for kind, sq, payload in c.transcript:
            if kind == "deliver":
                delivered.append((sq, payload))
                continue
            if kind == "recv":
                d_sq, d_idle = delivered.pop(0) if delivered else (sq, None)
                try:
                    m = json.loads(payload)
                except ValueError:
                    continue
                if not isinstance(m, list) or len(m) < 2:
                    continue
                if m[0] == "REQ":
                    sid = str(m[1])
                    old = cur.get(sid)
                    if old is not None and old["t_end_start"] is None:
                        old["t_end_start"] = sq
                        old["end_idle"] = (d_sq, d_idle)
                        ending.append(old)
                    s = dict(conn=cn, sid=sid, filters=m[2:], t_req=sq, t_open=None, t_end_start=None, t_end=None, eose=None, gen=(old["gen"] + 1 if old else 0))
                    cur[sid] = s
                    subs.append(s)
                    pending.append(s)
                elif m[0] == "CLOSE":
                    old = cur.get(str(m[1]))
                    if old is not None and old["t_end_start"] is None:
                        old["t_end_start"] = sq
                        old["end_idle"] = (d_sq, d_idle)
                        ending.append(old)
                elif m[0] == "EVENT" and isinstance(m[1], dict):
                    events.append(dict(ev=m[1], conn=cn, t_recv=sq, t_ok=None, ok=None))
            elif kind == "mark":
                for s in pending:
                    s["t_open"] = sq
                pending = []
                for s in ending:
                    s["t_end"] = sq
                ending = []
            elif kind == "drop":
                for s in cur.values():
                    if s["t_end_start"] is None:
                        s["t_end_start"] = sq
                        s["end_idle"] = (sq, payload)
            elif kind == "done":
                for s in cur.values():
                    if s["t_end"] is None:
                        s["t_end"] = sq
            elif kind == "send":
                try:
                    m = json.loads(payload)
                except ValueError:
                    continue
                if m[0] == "OK":
                    for e in events:
                        if e["conn"] == cn and e["t_ok"] is None:
                            e["t_ok"] = sq
                            e["ok"] = m[2]
                            break
                elif m[0] == "EOSE":
                    s = cur.get(m[1])
                    if s is not None and s["eose"] is None:
                        s["eose"] = sq
    return subs, events


def judge(x, viol, cid, sig):
    w = x.world
    subs, events = timeline(w)
    first_ok = {}
    for e in sorted(events, key=lambda e: e["t_recv"]):
        if e["ok"] is True and e["ev"]["id"] not in first_ok:
            first_ok[e["ev"]["id"]] = e
    # pushes per (conn, sid, event id): list of send seq
    pushes = {}
    for cn, c in w.conns.items():
        for kind, sq, payload in c.transcript:
            if kind == "send":
                try:
                    m = json.loads(payload)
                except ValueError:
                    continue
                if m[0] == "EVENT":
                    pushes.setdefault((cn, m[1], m[2].get("id")), []).append(sq)
    known_sids = {(s["conn"], s["sid"]) for s in subs}
    for (cn, sid, eid), sqs in pushes.items():
        if (cn, sid) not in known_sids:
            viol.append({"case": cid, "clause": "frames-only-for-own-subscriptions", "sig": sig, "detail": "%s got a frame for sub id %r it never used" % (cn, sid)})
    live_ids = {E1["id"], E2["id"], E3["id"], EPH["id"]}
    for eid in live_ids:
        acc = first_ok.get(eid)
        ev = acc["ev"] if acc else None
        for (cn, sid) in known_sids:
            gens = [s for s in subs if s["conn"] == cn and s["sid"] == sid]
            got = pushes.get((cn, sid, eid), [])
            if acc is None:
                if got:
                    viol.append({"case": cid, "clause": "only-accepted-events-pushed", "sig": sig, "detail": "event %s pushed to %s/%s but never accepted" % (eid[:8], cn, sid)})
                continue
            may = 0      # upper bound on frames
            must = 0     # lower bound
            for s in gens:
                match = any(isinstance(f, dict) and R.matches(f, ev, "loose") for f in s["filters"])
                if not match:
                    continue
                # surely open: opened before the event was read, and not ended - or its ending command reached the relay at an idle
                # moment after the OK (then every consequence of the event, including the push, had already happened)
                ei = s.get("end_idle")
                ended_late = s["t_end_start"] is not None and ei is not None and ei[1] is True and ei[0] > acc["t_ok"]
                surely_open = s["t_open"] is not None and s["t_open"] < acc["t_recv"] and (s["t_end_start"] is None or ended_late)
                surely_closed = (s["t_end"] is not None and s["t_end"] < acc["t_recv"]) or (s["t_req"] > acc["t_ok"] and False)
                opened_after = s["t_req"] > acc["t_ok"]  # subscription created after the event was acknowledged: only a stored copy possible
                if surely_closed:
                    continue
                if opened_after:
                    may += 1  # a stored copy (ephemeral kinds stay queryable on SQL until a GC pass: C17)
                    continue
                if surely_open:
                    must += 1
                    may += 1
                    # stored query still running at acceptance -> one additional stored copy allowed
                    if s["eose"] is None or s["eose"] > acc["t_recv"]:
                        may += 1
                else:
                    may += 2
            if len(got) < must:
                viol.append({"case": cid, "clause": "open-matching-subscription-receives", "sig": sig,
                             "detail": "%s/%s surely open and matching received %d frames of %s (expected >= %d)" % (cn, sid, len(got), eid[:8], must)})
            # frames after the subscription's EOSE are live pushes by definition (stored results end at EOSE): at most one of them
            if len(gens) == 1 and gens[0]["eose"] is not None:
                late = [q for q in got if q > gens[0]["eose"]]
                if len(late) > 1:
                    viol.append({"case": cid, "clause": "no-extra-or-unwanted-push", "sig": sig,
                                 "detail": "%s/%s received %d live pushes of %s after its EOSE (exactly once demanded)" % (cn, sid, len(late), eid[:8])})
                    continue
            if len(got) > may:
                viol.append({"case": cid, "clause": "no-extra-or-unwanted-push", "sig": sig,
                             "detail": "%s/%s received %d frames of %s (at most %d allowed: closed, replaced, non-matching or duplicate)" % (cn, sid, len(got), eid[:8], may)})
    if w.loop.handler_errors:
        viol.append({"case": cid, "clause": "no-stray-exceptions", "sig": sig, "detail": repr(w.loop.handler_errors[:2])})


def run_sched(case):
    _, backend, name, prefix, tier = case
    scn = make_scenario(name, backend)
    bound = 1 if tier == "quick" else 2
    remaining = bound - (1 if prefix else 0)
    viol = []
    cid = "sched|%s|%s" % (name, backend)
    outcomes = set()
    stats = {"n": 0, "points": 0}

    def on_exec(x):
        sig = "sched=%s" % explorer.rle(x.choices)
        before = len(viol)
        judge(x, viol, cid, sig)
        outcomes.add(json.dumps([x.world.conns[k].sent() for k in sorted(x.world.conns)]))
        stats["n"] += 1
        stats["points"] += len(x.points)
        for v in viol[before:]:
            v["detail"] += " | scenario=%s schedule=%s" % (scn.name, x.choices)
            v["exact"] = {"scenario": name, "backend": backend, "choices": list(x.choices)}

    if not prefix:
        explorer.explore(scn, 0, on_exec)
    else:
        explorer.explore(scn, remaining, on_exec, root_prefix=list(prefix))
    return {"id": "%s|p=%s" % (cid, explorer.rle(list(prefix))), "viol": viol, "outcome": sorted(outcomes), "outcome_is_set": True,
            "evals": stats["n"], "states": stats["points"], "transitions": stats["points"], "nontrivial": True, "desc": describe(case),
            "extra": {"sched_executions": stats["n"], "sched_choice_points": stats["points"]},
            "sample": {"mode": "sched", "scenario": scn.name, "prefix": list(prefix), "executions": stats["n"]}}


# ---------------------------------------------------------------------------------------------------
def run_table(case):
    _, backend, nm, _, tier = case
    uni = Q.U1()
    ev = uni[nm]
    sess = seq.session(backend)
    viol = []
    cid = "table|%s" % backend
    n = 0
    agree_true = 0
    filters = Q.W_single("quick")
    if tier == "quick":
        filters = filters[::3]
    c = sess.cq
    # the live subscription additionally carries a limit (absent, 0, 1, 5 in rotation; all four for the first filters): a limit bounds the
    # stored answer only, it is not a matching condition
    todo = []
    # the same author / id spelled in upper and mixed case (filters are normalised before either kind of matching)
    mixed = lambda h: "".join(c.upper() if i % 2 else c for i, c in enumerate(h))  # noqa: E731
    for f in ({"authors": [ev["pubkey"].upper()]}, {"ids": [ev["id"].upper()]}, {"authors": [mixed(ev["pubkey"])], "kinds": [ev["kind"]]}, {"ids": [mixed(ev["id"])]}):
        todo.append((f, None))
    for i, f in enumerate(filters):
        for L in ((None, 0, 1, 5) if i < 12 else ((None, 0, 1, 5)[i % 4],)):
            todo.append((f, L))
    for f, L in todo:
        if R.on_boundary(f, ev):
            continue
        lf = dict(f) if L is None else dict(f, limit=L)
        sess.reset()
        c = sess.cq
        if c.closed_by_relay is not None or c.task.done():
            sess.query([f])  # reconnects
            c = sess.cq
        n0 = len(c.transcript)
        sess.w.send(c, json.dumps(["REQ", "live", lf], ensure_ascii=False), sess.HORIZON)
        r = sess.submit(ev)
        live = 0
        for k, _, p in c.transcript[n0:]:
            if k == "send" and p.startswith('["EVENT","live"'):
                live += 1
        sess.w.send(c, json.dumps(["CLOSE", "live"]), sess.HORIZON)
        ids, eose, notices, closed = sess.query_ids([f])
        stored = ids.count(ev["id"])
        n += 1
        fk = Q.fkey([lf])
        if (live > 0) != (stored > 0):
            viol.append({"case": cid, "clause": "live-matching-equals-stored-matching", "sig": "%s|%s" % (nm, fk),
                         "detail": "event %s: live pushes=%d, stored answers=%d for filter %s" % (nm, live, stored, fk)})
        elif live > 1:
            viol.append({"case": cid, "clause": "pushed-exactly-once", "sig": "%s|%s" % (nm, fk), "detail": "event %s pushed %d times for %s" % (nm, live, fk)})
        elif live:
            agree_true += 1
    return {"id": "%s|%s" % (cid, nm), "viol": viol, "outcome": None, "evals": n, "states": n, "transitions": n, "nontrivial": agree_true > 0, "desc": describe(case),
            "extra": {"table_pairs": n, "table_pairs_matching": agree_true},
            "sample": {"mode": "table", "backend": backend, "event": nm, "filters": n, "matching": agree_true}}


def run_case(case):
    return run_sched(case) if case[0] == "sched" else run_table(case)


def coverage(tier, agg):
    return {
        "rule": "sched: scenarios %s on both backends, every schedule with <= %d deviations from the default (choice points: frame arrival order "
                "across connections at loop-iteration boundaries, validator / read-pool / writer / SQLite round-trip completions between any two "
                "handles, disconnect, un-stall of a slow subscriber, timers); oracle: interval semantics - a subscription is surely open from the "
                "handler's progress mark after its REQ until the CLOSE / replacing REQ / disconnect is read, surely closed after the mark that follows; "
                "an event is accepted between the read of its EVENT frame and its OK frame; table: for each of the 10 universe events x %s single "
                "filters (bound-touching pairs skipped; the live subscription also carries limit absent/0/1/5 in rotation): live decision == stored decision of the "
                "filter without the limit. states/transitions = choice points visited (sched) / pairs (table)." % (
                    sorted(SCENARIOS), 1 if tier == "quick" else 2, "every third of the" if tier == "quick" else "all"),
        "backends": ["sql", "kv"],
    }


def replay(desc):
    case = (desc["mode"], desc["backend"], desc["name"], tuple(desc["prefix"]), desc.get("tier", "quick"))
    r = run_case(case)
    for v in r["viol"][:30]:
        print(v["clause"], v["detail"][:500])
    return r["viol"]


def replay_exact(ex):
    scn = make_scenario(ex["scenario"], ex["backend"])
    viol = explorer.replay_schedule(scn, ex["choices"], lambda x, v: judge(x, v, "replay", "replay"))
    for v in viol:
        print(v["clause"], v["detail"][:400])
    return viol
