"""C08 - only an event's author can delete it (NIP-09). STORE BFS with frame condition."""
from .. import store, refmodel as R
from ..universe import make_event

ID = "C08"
LEVEL = "model_checking"
ASSUMPTIONS = ["real nostr_relay code imported from /repo's working tree, driven through web.start_client / the storage API; SQLite runs for real behind a same-thread connection shim (bound to real aiosqlite by C06's conformance cases); LMDB is an in-memory double (bound to the real liblmdb by C10's conformance cases), msgpack is pip's pure-python codec; asyncio runs on a controlled virtual-time loop; real code, SQLite for real, LMDB double, sequential schedule"]


def universes():
    u = {}
    u["a1"] = make_event("A", 1, 10, [], "a1")
    u["a2"] = make_event("A", 1, 20, [], "a2")
    u["a3"] = make_event("A", 1, 40, [], "a3")
    u["b1"] = make_event("B", 1, 10, [], "b1")
    ids = {k: v["id"] for k, v in u.items()}
    unknown = "ab" * 32

    def dele(author, refs, t=30, extra=()):
        return make_event(author, 5, t, [["e", r] for r in refs] + [list(x) for x in extra], "")

    u["A_del_a1"] = dele("A", [ids["a1"]])
    u["A_del_a3new"] = dele("A", [ids["a3"]])
    u["A_del_b1"] = dele("A", [ids["b1"]])
    u["A_del_unknown"] = dele("A", [unknown])
    u["A_del_a1a2b1"] = dele("A", [ids["a1"], ids["a2"], ids["b1"]])
    u["A_del_a1_upper"] = dele("A", [ids["a1"].upper()])
    u["A_del_a1_ptag"] = dele("A", [], extra=[["p", ids["a1"]], ["E", ids["a1"]]])
    u["B_del_a1"] = dele("B", [ids["a1"]])
    u["B_del_b1a2"] = dele("B", [ids["b1"], ids["a2"]])
    u["A_del_a2_t20"] = dele("A", [ids["a2"]], t=20)  # same timestamp as a2
    from ..universe import delegation_tag
    u["b_dlg"] = make_event("B", 1, 12, [delegation_tag("A", "B", "kind=1")], "delegated by A")
    u["A_del_b_dlg"] = dele("A", [u["b_dlg"]["id"]])  # the delegator is not the author
    # malformed references: if accepted they must still delete nothing foreign
    u["A_del_mal_zz"] = dele("A", ["zz", ids["a1"]])
    u["A_del_mal_short"] = dele("A", [ids["a1"][:10]])
    u["A_del_mal_bare"] = make_event("A", 5, 30, [["e"], ["e", ids["a2"]]], "")
    u["A_del_mal_empty"] = dele("A", [""])
    # an own event exactly one second older than its deletion, and references that carry a relay hint / a marker (NIP-10 style)
    u["a29"] = make_event("A", 1, 29, [], "a29")
    u["A_del_a29"] = dele("A", [u["a29"]["id"]])
    u["A_del_a1a2_hinted"] = make_event("A", 5, 30, [["e", ids["a1"], "wss://relay.example"], ["e", ids["a2"], "", "mention"]], "")
    return {"U8": u}


def refs_of(e):
    out = set()
    for t in e["tags"]:
        if len(t) >= 2 and t[0] == "e" and isinstance(t[1], str):
            out.add(t[1].lower())
    return out


def oracle(backend, uni, sess):
    def on_transition(hist, pre, nm, r, post):
        v = []
        e = uni[nm]
        P = store.decode_store(backend, pre)
        Q = store.decode_store(backend, post)
        oks = r["ok"]
        accepted = len(oks) == 1 and oks[0][2] is True
        removed = [P[i] for i in P if i not in Q]
        refs = refs_of(e) if e["kind"] == 5 else set()
        for x in removed:
            if e["kind"] != 5 or not accepted:
                v.append({"clause": "nothing-else-removed", "sig": x["id"][:8],
                          "detail": "%s removed by %s (kind %d, accepted=%s)" % (x["id"][:8], nm, e["kind"], accepted)})
            elif x["pubkey"] != e["pubkey"]:
                v.append({"clause": "foreign-untouched", "sig": x["id"][:8],
                          "detail": "event %s of another author removed by deletion %s" % (x["id"][:8], nm)})
            elif x["id"] not in refs:
                v.append({"clause": "unreferenced-untouched", "sig": x["id"][:8],
                          "detail": "unreferenced event %s removed by deletion %s" % (x["id"][:8], nm)})
        if e["kind"] == 5 and accepted and e["id"] not in P:
            must = [x for x in P.values() if x["id"] in refs and x["pubkey"] == e["pubkey"]
                    and x["created_at"] < e["created_at"]]
            for x in must:
                if x["id"] in Q:
                    v.append({"clause": "own-older-removed", "sig": x["id"][:8],
                              "detail": "own older referenced event %s still stored after accepted deletion %s" % (x["id"][:8], nm)})
                ids, eose, notice, closed = sess.query_ids([{"ids": [x["id"]]}])
                if x["id"] in ids:
                    v.append({"clause": "not-served-by-req", "sig": x["id"][:8],
                              "detail": "REQ ids still serves %s after deletion %s" % (x["id"][:8], nm)})
                got = sess.w.http_get(x["id"])
                if not isinstance(got, tuple):
                    v.append({"clause": "not-served-by-http", "sig": x["id"][:8],
                              "detail": "get_event (/e/<id>) still serves %s after deletion %s" % (x["id"][:8], nm)})
        return v

    return on_transition


def state_oracle(backend, uni, sess):
    def on_state(hist, dump):
        # every stored event is viewed over HTTP when its state is first reached (a later deletion must still make it disappear there)
        for eid in store.decode_store(backend, dump):
            body = sess.w.http_get(eid)
            if isinstance(body, tuple):
                return [{"clause": "stored-event-served-by-http", "sig": eid[:8], "detail": "/e/%s answers %r although the event is stored" % (eid[:8], body)}]
        return []

    return on_state


CHECK = store.StoreCheck(
    ID, universes, oracle, state_oracle=state_oracle,
    depths={"quick": 3, "thorough": 4},
    rule="universe U8: authors A,B; regular a1(t10) a2(t20) a3(t40) b1(t10); kind-5 deletions by A and B at t30 (and t20) referencing own "
         "older, own newer, foreign, unknown, several, upper-case, p/E-tag only, malformed (zz, short, bare, empty) ids; "
         "oracle: removed subset of {referenced and same author}, superset of own older referenced; then REQ ids and get_event do not serve them",
    linear={"quick": 2, "thorough": 3},
)
CHECK.export(globals())
