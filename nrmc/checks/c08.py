"""C08 - only an event's author can delete it (NIP-09). STORE BFS with frame condition."""
from .. import store, refmodel as R
from ..universe import make_event

ID = "C08"
LEVEL = "model_checking"
ASSUMPTIONS = ["real nostr_relay code imported from /repo's working tree, driven through web.start_client / the storage API; SQLite runs for real behind a same-thread connection shim (bound to real aiosqlite by C06's conformance cases); LMDB is an in-memory double (bound to the real liblmdb by C10's conformance cases), msgpack is pip's pure-python codec; asyncio runs on a controlled virtual-time loop; real code, SQLite for real, LMDB double, sequential schedule"]


def universes():
    u = {}
    u["a1"] = make_event("A", 1, 10, [], "a1")
    u["a2"] = make_event("A", 1, 20, [], "a2")
    u["a3"] = make_event("A", 1, 40, [], "a3")
    u["b1"] = make_event("B", 1, 10, [], "b1")
    ids = {k: v["id"] for k, v in u.items()}
    unknown = "ab" * 32

    def dele(author, refs, t=30, extra=()):
        return make_event(author, 5, t, [["e", r] for r in refs] + [list(x) for x in extra], "")

    u["A_del_a1"] = dele("A", [ids["a1"]])
    u["A_del_a3new"] = dele("A", [ids["a3"]])
    u["A_del_b1"] = dele("A", [ids["b1"]])
    u["A_del_unknown"] = dele("A", [unknown])
    u["A_del_a1a2b1"] = dele("A", [ids["a1"], ids["a2"], ids["b1"]])
    u["A_del_a1_upper"] = dele("A", [ids["a1"].upper()])
    u["A_del_a1_ptag"] = dele("A", [], extra=[["p", ids["a1"]], ["E", ids["a1"]]])
    u["B_del_a1"] = dele("B", [ids["a1"]])
    u["B_del_b1a2"] = dele("B", [ids["b1"], ids["a2"]])
    u["A_del_a2_t20"] = dele("A", [ids["a2"]], t=20)  # same timestamp as a2
    from ..universe import delegation_tag
    u["b_dlg"] = make_event("B", 1, 12, [delegation_tag("A", "B", "kind=1")], "delegated by A")
    u["A_del_b_dlg"] = dele("A", [u["b_dlg"]["id"]])  # the delegator is not the author
    # malformed references: if accepted they must still delete nothing foreign
    u["A_del_mal_zz"] = dele("A", ["zz", ids["a1"]])
    u["A_del_mal_short"] = dele("A", [ids["a1"][:10]])
    u["A_del_mal_bare"] = make_event("A", 5, 30, [["e"], ["e", ids["a2"]]], "")
    u["A_del_mal_empty"] = dele("A", [""])
    # an own event exactly one second older than its deletion, and references that carry a relay hint / a marker (NIP-10 style)
    u["a29"] = make_event("A", 1, 29, [], "a29")
    u["A_del_a29"] = dele("A", [u["a29"]["id"]])
    u["A_del_a1a2_hinted"] = make_event("A", 5, 30, [["e", ids["a1"], "wss://relay.example"], ["e", ids["a2"], "", "mention"]], "")
    return {"U8": u}


def refs_of(e):
    out = set()
    for t in e["tags"]:
        if len(t) >= 2 and t[0] == "e" and isinstance(t[1], str):
            out.add(t[1].lower())
    return out


def oracle(backend, uni, sess):
    def on_transition(hist, pre, nm, r, post):
        v = []
        e = uni[nm]
        P = store.decode_store(backend, pre)
        Q = store.decode_store(backend, post)
        oks = r["ok"]
        accepted = len(oks) == 1 and oks[0][2] is True
        removed = [P[i] for i in P if i not in Q]
        refs = refs_of(e) if e["kind"] == 5 else set()
        for x in removed:
            if e["kind"] != 5 or not accepted:
                v.append({"clause": "nothing-else-removed", "sig": x["id"][:8],
                          "detail": "%s removed by %s (kind %d, accepted=%s)" % (x["id"][:8], nm, e["kind"], accepted)})
            elif x["pubkey"] != e["pubkey"]:
                v.append({"clause": "foreign-untouched", "sig": x["id"][:8],
                          "detail": "event %s of another author removed by deletion %s" % (x["id"][:8], nm)})
            elif x["id"] not in refs:
                v.append({"clause": "unreferenced-untouched", "sig": x["id"][:8],
                          "detail": "unreferenced event %s removed by deletion %s" % (x["id"][:8], nm)})
        if e["kind"] == 5 and accepted and e["id"] not in P:
            must = [x for x in P.values() if x["id"] in refs and x["pubkey"] == e["pubkey"]
                    and x["created_at"] < e["created_at"]]
            for x in must:
                if x["id"] in Q:
                    v.append({"clause": "own-older-removed", "sig": x["id"][:8],
                              "detail": "own older referenced event %s still stored after accepted deletion %s" % (x["id"][:8], nm)})
                ids, eose, notice, closed = sess.query_ids([{"ids": [x["id"]]}])
                if x["id"] in ids:
                    v.append({"clause": "not-served-by-req", "sig": x["id"][:8],
                              "detail": "REQ ids still serves %s after deletion %s" % (x["id"][:8], nm)})
                got = sess.w.http_get(x["id"])
                if not isinstance(got, tuple):
                    v.append({"clause": "not-served-by-http", "sig": x["id"][:8],
                              "detail": "get_event (/e/<id>) still serves %s after deletion %s" % (x["id"][:8], nm)})
        return v

    return on_transition


def state_oracle(backend, uni, sess):
    def on_state(hist, dump):
        # every stored event is viewed over HTTP when its state is first reached (a later deletion must still make it disappear there)
        for eid in store.decode_store(backend, dump):
            body = sess.w.http_get(eid)
            if isinstance(body, tuple):
                return [{"clause": "stored-event-served-by-http", "sig": eid[:8], "detail": "/e/%s answers %r although the event is stored" % (eid[:8], body)}]
        return []

    return on_state


CHECK = store.StoreCheck(
    ID, universes, oracle, state_oracle=state_oracle,
    depths={"quick": 3, "thorough": 4},
    rule="universe U8: authors A,B; regular a1(t10) a2(t20) a3(t40) b1(t10); kind-5 deletions by A and B at t30 (and t20) referencing own "
         "older, own newer, foreign, unknown, several, upper-case, p/E-tag only, malformed (zz, short, bare, empty) ids; "
         "oracle: removed subset of {referenced and same author}, superset of own older referenced; then REQ ids and get_event do not serve them",
    linear={"quick": 2, "thorough": 3},
)
CHECK.export(globals())


# ---------------------------------------------------------------------------------------------------
# Several connections at once (SCHED): a deletion while another connection submits, deletes or asks.
import json  # noqa: E402

from ..schedmode import SchedMode  # noqa: E402

_base_cases = CHECK.cases
_base_run_case = CHECK.run_case
_base_describe = CHECK.describe
_base_coverage = CHECK.coverage
_base_replay = CHECK.replay
S_PRE = ["a1", "a2", "b1"]
S_SPECS = {
    # name: (script of (conn, universe member | REQ frame), gone at the end, present at the end)
    "delete_vs_note": ([("c1", "A_del_a1"), ("c2", "a3")], ["a1"], ["a2", "b1", "a3", "A_del_a1"]),
    "two_deletions": ([("c1", "A_del_a1a2b1"), ("c2", "B_del_b1a2")], ["a1", "a2", "b1"], ["A_del_a1a2b1", "B_del_b1a2"]),
    "foreign_vs_own_deletion": ([("c1", "B_del_a1"), ("c2", "A_del_a1")], ["a1"], ["a2", "b1"]),
    "foreign_deletion_vs_note": ([("c1", "B_del_a1"), ("c2", "a3")], [], ["a1", "a2", "b1", "a3"]),
    "deletion_vs_query": ([("c1", "A_del_a1a2b1"), ("c2", ["REQ", "q", {"kinds": [1]}])], ["a1", "a2"], ["b1"]),
}


def _s_build(name, backend, policy):
    from ..explorer import Scenario

    u = CHECK.U()["U8"]
    script = [(cn, ["EVENT", u[x]] if isinstance(x, str) else x) for cn, x in S_SPECS[name][0]]

    def setup(w):
        f = w.connect("setup", "9.9.9.9")
        w.run(1e6)
        for nm in S_PRE:
            w.send("setup", ["EVENT", u[nm]], 1e6)
        f.drop()
        w.run(1e6)
        del w.conns["setup"]
        have = store.decode_store(backend, w.dump())
        if any(u[nm]["id"] not in have for nm in S_PRE):
            from ..env import HarnessError

            raise HarnessError("scenario setup did not store %r" % S_PRE)

    return Scenario("%s%s|%s" % (name, "@fair" if policy == "fair" else "", backend), backend, [("c1", "1.1.1.1"), ("c2", "2.2.2.2")], script,
                    storage_options={"stats_interval": 1e15}, setup=setup, horizon=30.0, policy=policy)


def _s_judge(x, name, backend, viol, cid, sig):
    u = CHECK.U()["U8"]
    script, gone, present = S_SPECS[name]
    w = x.world
    have = store.decode_store(backend, w.dump())
    acked = True
    for cn, nm in script:
        if isinstance(nm, str):
            ok = any(k == "send" and p.startswith('["OK"') and u[nm]["id"] in p and '",true,' in p for k, _, p in w.conns[cn].transcript)
            acked = acked and ok
    if not acked:
        return  # a refused submission promises nothing here (C06 judges acknowledgements)
    for nm in gone:
        if u[nm]["id"] in have:
            viol.append({"case": cid, "clause": "own-older-removed", "sig": sig + "|" + nm, "detail": "%s is referenced by an accepted deletion of its author but is still stored" % nm})
    for nm in present:
        if u[nm]["id"] not in have:
            viol.append({"case": cid, "clause": "foreign-untouched" if nm in S_PRE else "unreferenced-untouched", "sig": sig + "|" + nm,
                         "detail": "%s is not (validly) referenced by any accepted deletion of its author but is no longer stored" % nm})
    # afterwards nothing that should be gone is served
    if "c2" in w.conns and w.conns["c2"].closed_by_relay is None:
        c = w.conns["c2"]
        n0 = len(c.transcript)
        w.send("c2", ["REQ", "final", {"ids": [u[nm]["id"] for nm in S_PRE]}], 1e6)
        for k, _, p in c.transcript[n0:]:
            if k == "send" and p.startswith('["EVENT","final"'):
                eid = json.loads(p)[2]["id"]
                nm = next((n for n in S_PRE if u[n]["id"] == eid), eid[:8])
                if nm in gone:
                    viol.append({"case": cid, "clause": "deleted-not-served", "sig": sig + "|" + nm, "detail": "%s is still served by a query after its accepted deletion" % nm})


SCHEDMODE = SchedMode(S_SPECS, _s_build, _s_judge)


# ---------------------------------------------------------------------------------------------------
# The bulk loader (`nostr-relay load`, cli.load): every file of up to LOAD_DEPTH distinct lines over a sub-universe, through the real command.
LOAD_ALPHA = ["a1", "a2", "b1", "a29", "A_del_a1", "A_del_a1a2b1", "B_del_a1", "B_del_b1a2", "A_del_a29", "A_del_a1a2_hinted"]
LOAD_DEPTH = {"quick": 2, "thorough": 3}


def load_cases(tier):
    return [("load", backend, first, tier) for backend in ("sql", "kv") for first in LOAD_ALPHA]


def run_load(case):
    import gc
    import itertools
    from ..harness import World

    _, backend, first, tier = case
    u = CHECK.U()["U8"]
    viol = []
    n = 0
    outcomes = set()
    rest = [x for x in LOAD_ALPHA if x != first]
    files = [(first,)]
    for k in range(1, LOAD_DEPTH[tier]):
        files += [(first,) + t for t in itertools.permutations(rest, k)]
    for names in files:
        w = World(backend, storage_options={"stats_interval": 1e15})
        try:
            w.cli_load([json.dumps(u[nm] if i % 2 else ["EVENT", u[nm]]) for i, nm in enumerate(names)])
            have = store.decode_store(backend, w.dump())
        finally:
            w.close()
            gc.collect()
        n += 1
        outcomes.add(tuple(sorted(nm for nm in names if u[nm]["id"] in have)))
        sig = "load|" + ">".join(names)
        for i, nm in enumerate(names):
            e = u[nm]
            if e["kind"] == 5:
                continue
            own = [(j, d) for j, d in enumerate(names) if u[d]["kind"] == 5 and u[d]["pubkey"] == e["pubkey"] and e["id"] in refs_of(u[d])]
            if not own and e["id"] not in have:
                viol.append({"case": "load|" + backend, "clause": "foreign-untouched" if any(e["id"] in refs_of(u[d]) for d in names if u[d]["kind"] == 5) else "unreferenced-untouched",
                             "sig": sig + "|" + nm, "detail": "file %s: %s is referenced by no deletion of its own author but is not stored after the load" % (" ".join(names), nm)})
            for j, d in own:
                if j > i and e["created_at"] < u[d]["created_at"] and u[d]["id"] in have and e["id"] in have:
                    viol.append({"case": "load|" + backend, "clause": "own-older-removed", "sig": sig + "|" + nm,
                                 "detail": "file %s: %s precedes the accepted deletion %s of its author, which references it, but is still stored after the load" % (" ".join(names), nm, d)})
    return {"id": "load|%s|%s" % (backend, first), "viol": viol, "outcome": sorted(outcomes), "outcome_is_set": True, "evals": n, "states": n, "transitions": n,
            "nontrivial": True, "desc": {"mode": "load", "backend": backend, "first": first, "tier": tier}, "extra": {"load_files": n},
            "sample": {"mode": "load", "backend": backend, "first": first, "files": n, "distinct_final_stores": len(outcomes)}}


def cases(tier):
    return list(_base_cases(tier)) + SCHEDMODE.cases(tier) + load_cases(tier)


def describe(case):
    if case[0] == "load":
        return {"mode": "load", "backend": case[1], "first": case[2], "tier": case[3]}
    return SCHEDMODE.describe(case) if SCHEDMODE.is_case(case) and case[0] == "sched" else _base_describe(case)


def run_case(case):
    if case[0] == "load":
        return run_load(case)
    return SCHEDMODE.run(case) if SCHEDMODE.is_case(case) and case[0] == "sched" else _base_run_case(case)


def coverage(tier, agg):
    c = _base_coverage(tier, agg)
    c["rule"] += SCHEDMODE.rule() + " on a store holding a1, a2, b1: at quiescence every own older event referenced by an accepted deletion is gone and not served, everything else is stored"
    c["rule"] += ("; LOAD: every file of up to %d distinct lines over %d members of U8 through the real loader command cli.load (World.cli_load) on both backends: an event no deletion of its own "
                  "author references is stored afterwards; an event that precedes, in the file, an accepted deletion of its author which references it (and is older) is not" % (LOAD_DEPTH[tier], len(LOAD_ALPHA)))
    return c


def replay(desc):
    if desc.get("mode") == "load":
        r = run_case(("load", desc["backend"], desc["first"], desc.get("tier", "quick")))
        for v in r["viol"][:20]:
            print(v["clause"], v["detail"])
        return r["viol"]
    if desc.get("mode") == "sched":
        r = run_case(SCHEDMODE.from_desc(desc))
        for v in r["viol"][:20]:
            print(v["clause"], v["detail"])
        return r["viol"]
    return _base_replay(desc)

