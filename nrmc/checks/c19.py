"""C19 - no client input can crash, wedge or leak a connection, or disturb others.
Grammar-exhaustive hostile frames (every JSON type at every position of EVENT/REQ/CLOSE/AUTH frames, of the event object
and of the filter object; invalid JSON texts; huge and deeply nested values; hostile payloads) embedded between well-formed
probe commands on connection 1 while connection 2 holds a subscription and submits an event; default schedule for all,
all 1-deviation schedules for a subset."""
import gc
import json

from .. import explorer
from ..explorer import Scenario, DROP
from ..universe import make_event, PK

ID = "C19"
LEVEL = "model_checking"
ASSUMPTIONS = ["real nostr_relay code imported from /repo's working tree, driven through web.start_client / the storage API; SQLite runs for real behind a same-thread connection shim (bound to real aiosqlite by C06's conformance cases); LMDB is an in-memory double (bound to the real liblmdb by C10's conformance cases), msgpack is pip's pure-python codec; asyncio runs on a controlled virtual-time loop; 'closes that one connection cleanly' = ws_close called or handler returns, registry entry removed, sender and query tasks finished"]
CHUNK = 1

T = [None, True, 0, 5, 2 ** 70, -1, 1.5, "s", "", [], [1], [[]], {}, {"a": 1}]
PROBE_EV = make_event("A", 1, 500, [["t", "probe"]], "probe event of connection 1")
OTHER_EV = make_event("B", 1, 501, [["t", "other"]], "event of connection 2")
GOOD = make_event("A", 1, 400, [["e", "ab" * 32]], "good")


def hostile_frames():
    out = {}

    def add(name, fr, raw=False):
        out[name] = fr if raw else json.dumps(fr)

    for i, t in enumerate(T):
        add("frame=%d" % i, t)
        add("cmd=%d" % i, [t, "x"])
        add("EVENT,%d" % i, ["EVENT", t])
        add("REQ,%d" % i, ["REQ", t])
        add("REQ,%d,ok" % i, ["REQ", t, {"kinds": [1]}])  # a valid REQ whose subscription id is the hostile value
        add("REQ,sid,%d" % i, ["REQ", "s", t])
        add("REQ,sid,ok,%d" % i, ["REQ", "s", {"kinds": [1]}, t])
        add("CLOSE,%d" % i, ["CLOSE", t])
        add("AUTH,%d" % i, ["AUTH", t])
        for f in ("id", "pubkey", "created_at", "kind", "tags", "content", "sig"):
            add("EVENT.%s=%d" % (f, i), ["EVENT", dict(GOOD, **{f: t})])
        for k in ("ids", "authors", "kinds", "since", "until", "limit", "#e", "search", "tags", "#", "##"):
            add("REQ.%s=%d" % (k, i), ["REQ", "s", {k: t}])
            add("REQ.%s=[%d]" % (k, i), ["REQ", "s", {k: [t]}])
        add("EVENT.tags=[%d]" % i, ["EVENT", dict(GOOD, tags=[t])])
        add("EVENT.tags=[[%d]]" % i, ["EVENT", dict(GOOD, tags=[[t]])])
        add("EVENT.tags=[[e,%d]]" % i, ["EVENT", dict(GOOD, tags=[["e", t]])])
    for f in ("id", "pubkey", "created_at", "kind", "tags", "content", "sig"):
        add("EVENT.missing_%s" % f, ["EVENT", {k: v for k, v in GOOD.items() if k != f}])
    add("EVENT.extra", ["EVENT", dict(GOOD, extra=1)])
    add("EVENT.extra_arg", ["EVENT", GOOD, "x"])
    add("short_EVENT", ["EVENT"])
    add("short_REQ", ["REQ"])
    add("short_CLOSE", ["CLOSE"])
    add("short_AUTH", ["AUTH"])
    add("empty_list", [])
    add("unknown_cmd", ["FOO", "x"])
    add("lower_cmd", ["event", GOOD])
    add("many_filters", ["REQ", "s"] + [{"kinds": [i]} for i in range(40)])
    # correctly signed events that pass validation but that the storage engine cannot take (failure inside the transaction)
    add("signed_nested_tag", ["EVENT", make_event("A", 1, 410, [["t", ["x"]]], "nested tag value")])
    add("signed_object_tag", ["EVENT", make_event("A", 1, 411, [["p", {"a": 1}]], "object tag value")])
    add("signed_huge_kind", ["EVENT", make_event("A", 2 ** 63, 412, [], "kind beyond 64 bits")])
    add("signed_huge_created_at", ["EVENT", make_event("A", 1, 2 ** 64, [], "created_at beyond 64 bits")])
    add("signed_bigint_tag", ["EVENT", make_event("A", 1, 413, [["t", 2 ** 70]], "integer tag item beyond 64 bits")])
    add("signed_bare_tags", ["EVENT", make_event("A", 5, 414, [["e"], ["expiration"], ["d"], ["delegation"]], "bare tags")])
    add("dup_delegation", ["EVENT", dict(GOOD, tags=[["delegation", "x"]])])
    add("deleg_4_bad", ["EVENT", dict(GOOD, tags=[["delegation", "zz", "c", "zz"]])])
    for name, raw in (("txt_empty", ""), ("txt_brace", "{"), ("txt_bracket", "["), ("txt_nul", "nul"), ("txt_trailing_comma", "[1,]"),
                      ("txt_NUL", "\x00"), ("txt_truncated", '["EVENT",'), ("txt_nan", '["REQ","s",{"since":NaN}]'), ("txt_inf", '["REQ","s",{"limit":Infinity}]'),
                      ("txt_bigexp", '["REQ","s",{"since":1e999}]'), ("txt_surrogate", '["REQ","\\ud800",{"kinds":[1]}]'),
                      ("txt_dupkeys", '["REQ","s",{"kinds":[1],"kinds":"x"}]'), ("txt_bom", "﻿[]"), ("txt_ws", "   "),
                      ("txt_1MB", json.dumps(["REQ", "s", {"#e": ["x" * 1000000]}])), ("txt_1MB_content", json.dumps(["EVENT", dict(GOOD, content="y" * 1000000)])),
                      ("txt_deep", "[" * 10000 + "]" * 10000), ("txt_deep_obj", '["REQ","s",' + '{"a":' * 3000 + "1" + "}" * 3000 + "]"),
                      ("txt_many_ids", json.dumps(["REQ", "s", {"ids": ["ab" * 32] * 5000}])), ("txt_bignum", '["REQ","s",{"limit":' + "9" * 400 + "}]")):
        add(name, raw, raw=True)
    return out


_HF = None


def HF():
    global _HF
    if _HF is None:
        _HF = hostile_frames()
    return _HF


EMBED = {
    "mid": lambda h: [("c1", ["REQ", "p1", {"kinds": [1]}]), ("c1", h), ("c1", ["EVENT", PROBE_EV]), ("c1", ["REQ", "p2", {"#t": ["probe"]}]), ("c1", ["CLOSE", "p1"])],
    "twice": lambda h: [("c1", h), ("c1", h), ("c1", ["EVENT", PROBE_EV]), ("c1", ["REQ", "p2", {"#t": ["probe"]}])],
    "five_times": lambda h: [("c1", h)] * 5 + [("c1", ["EVENT", PROBE_EV]), ("c1", ["REQ", "p2", {"#t": ["probe"]}])],
    "then_drop": lambda h: [("c1", ["REQ", "p1", {"kinds": [1]}]), ("c1", h), ("c1", DROP)],
}
C2_SCRIPT = [("c2", ["REQ", "w", {"kinds": [1]}]), ("c2", ["EVENT", OTHER_EV])]


def _setup(w):
    f = w.connect("setup", "9.9.9.9")
    w.run(1e6)
    w.send("setup", ["EVENT", GOOD], 1e6)
    f.drop()
    w.run(1e6)
    del w.conns["setup"]
    # non-vacuity: the scenario's pre-stored events really are in the store
    from ..store import decode_store
    from ..env import HarnessError

    have = decode_store(w.backend, w.dump())
    missing = [e["id"][:8] for e in (GOOD,) if e["id"] not in have]
    if missing:
        raise HarnessError("scenario setup did not store %r" % missing)


def make_scenario(backend, hname, emb, auth):
    h = HF()[hname] if hname is not None else None
    if h is None:
        script = [x for x in EMBED[emb]("__none__") if x[1] != "__none__"]
    else:
        script = EMBED[emb](h)
    # connection 2 acts first and last: subscribe, ..., submit
    full = [C2_SCRIPT[0]] + script + [C2_SCRIPT[1]]
    cfg = {}
    if auth:
        cfg["authentication"] = {"enabled": True, "actions": {"save": "a", "query": "a"}, "relay_urls": ["ws://r"]}
    so = {"stats_interval": 1e15}
    if emb in ("mid", "then_drop") and backend == "sql":
        # one slot of every pooled resource: a single leaked slot (query / add semaphore) wedges the probes that follow
        so.update({"num_concurrent_reqs": 1, "num_concurrent_adds": 1})
    return Scenario("%s|%s|%s|auth=%d" % (hname, emb, backend, auth), backend, [("c1", "1.1.1.1"), ("c2", "2.2.2.2")], full, config=cfg,
                    storage_options=so, setup=_setup, horizon=400.0, allow_timer_deviation=False)


SUBSET = ["EVENT.tags=[[e,9]]", "REQ.#e=[9]", "REQ,sid,9", "EVENT,12", "txt_deep", "EVENT.kind=7", "REQ.ids=[7]", "CLOSE,12", "txt_nan", "EVENT.id=0",
          "REQ.tags=9", "AUTH,12", "frame=12", "EVENT.content=9", "many_filters", "EVENT.sig=7", "REQ.limit=5", "deleg_4_bad", "txt_surrogate", "EVENT.tags=[9]"]


# a slow reader: the send of connection 1 blocks while it asks for / is pushed many events, then it disconnects; nothing of it may
# stay behind and connection 2 must go on being served
MANY = [make_event("A", 1, 600 + i, [["t", "bulk"]], "bulk %d" % i) for i in range(40)]


def slow_scenario(backend, variant):
    def setup(w):
        f = w.connect("setup", "9.9.9.9")
        w.run(10.0)
        if variant == "big_stored_result":
            for ev in MANY:
                w.send("setup", ["EVENT", ev], 10.0)
        f.drop()
        w.run(10.0)
        del w.conns["setup"]

    if variant == "big_stored_result":
        script = [("c1", ["REQ", "big", {"#t": ["bulk"]}]), ("c2", ["REQ", "w", {"kinds": [1], "limit": 2}]), ("c1", DROP), ("c2", ["EVENT", OTHER_EV]),
                  ("c2", ["REQ", "w2", {"kinds": [1], "limit": 1}])]
    else:  # many live pushes to a reader that stopped reading
        script = [("c1", ["REQ", "live", {"#t": ["bulk"]}])] + [("c2", ["EVENT", ev]) for ev in MANY] + [("c2", ["REQ", "w2", {"kinds": [1], "limit": 1}]), ("c1", DROP)]
    return Scenario("slow|%s|%s" % (variant, backend), backend, [("c1", "1.1.1.1"), ("c2", "2.2.2.2")], script,
                    storage_options={"stats_interval": 1e15}, setup=setup, stall=("c1",), horizon=400.0, allow_timer_deviation=False)


def run_slow(case):
    _, backend, variant, _, tier = case
    scn = slow_scenario(backend, variant)
    viol = []
    cid = "%s|slow|%s" % (backend, variant)
    n = [0]

    def on_exec(x):
        import asyncio

        n[0] += 1
        w = x.world
        sig = "%s|sched=%s" % (variant, explorer.rle(x.choices) if any(x.choices) else "default")
        c2 = w.conns["c2"]
        fr2 = frames_of(c2)
        oks = [m for m in fr2 if m[0] == "OK"]
        want_ok = len(MANY) if variant == "many_live_pushes" else 1
        if len(oks) != want_ok or not all(m[2] is True for m in oks):
            viol.append({"case": cid, "clause": "other-connections-undisturbed", "sig": sig,
                         "detail": "connection 2 got %d OK frames for %d EVENTs while connection 1 is a slow reader | %s" % (len(oks), want_ok, sig)})
        if not any(m[0] == "EOSE" and m[1] == "w2" for m in fr2):
            viol.append({"case": cid, "clause": "other-connections-undisturbed", "sig": sig, "detail": "connection 2's REQ w2 got no EOSE | %s" % sig})
        for c in w.conns.values():
            if not c.dropped:
                c.drop()
        w.run(1e6)
        pending = [t for t in asyncio.all_tasks(w.loop) if not t.done() and "Periodic" not in repr(t.get_coro())]
        if len(w.storage.clients) or pending:
            viol.append({"case": cid, "clause": "everything-dropped-at-disconnect", "sig": sig,
                         "detail": "after both connections ended: %d registry entries, pending tasks %r | %s" % (
                             len(w.storage.clients), [repr(t.get_coro())[:70] for t in pending][:3], sig)})
        if w.loop.handler_errors:
            viol.append({"case": cid, "clause": "no-stray-exceptions", "sig": sig, "detail": "%r | %s" % (w.loop.handler_errors[:2], sig)})

    explorer.explore(scn, 0 if tier == "quick" else 1, on_exec)
    return {"id": cid, "viol": viol, "outcome": "slow", "evals": n[0], "states": n[0], "transitions": n[0], "nontrivial": True, "desc": describe(case),
            "extra": {"executions_slow_reader": n[0]}, "sample": {"mode": "slow", "backend": backend, "variant": variant, "executions": n[0]}}


def cases(tier):
    out = []
    for backend in ("sql", "kv"):
        for variant in ("big_stored_result", "many_live_pushes"):
            out.append(("slow", backend, variant, (), tier))
    for backend in ("sql", "kv"):
        for first in (RL_ALPHA_Q if tier == "quick" else RL_ALPHA_T):
            out.append(("ratelimited", backend, first, (), tier))
    names = list(HF())
    blk = 12
    for backend in ("sql", "kv"):
        for emb in EMBED:
            for lo in range(0, len(names), blk):
                out.append(("d0", backend, emb, tuple(names[lo:lo + blk]), tier))
        sub = (SUBSET + [n for n in names[::3] if n not in SUBSET and not n.startswith("txt_1MB")]) if tier == "thorough" else SUBSET[:6]
        for hname in sub:
            out.append(("d1", backend, "mid", (hname,), tier))
    return out


def describe(case):
    return {"mode": case[0], "backend": case[1], "embedding": case[2], "frames": list(case[3]), "tier": case[4]}


def frames_of(c):
    out = []
    for k, _, p in c.transcript:
        if k == "send":
            try:
                out.append(json.loads(p))
            except ValueError:
                out.append(["UNPARSEABLE", p[:50]])
    return out


def c2_view(x):
    """connection 2's transcript modulo events that connection 1 legitimately got accepted"""
    accepted_by_c1 = set()
    for m in frames_of(x.world.conns["c1"]):
        if m[0] == "OK" and m[2] is True:
            accepted_by_c1.add(m[1])
    out = []
    for m in frames_of(x.world.conns["c2"]):
        if m[0] == "EVENT" and m[2].get("id") in accepted_by_c1:
            continue
        out.append(json.dumps(m, sort_keys=True))
    return out


def judge(x, baseline_c2, viol, cid, sig, hname, emb):
    w = x.world
    c1 = w.conns["c1"]
    c2 = w.conns["c2"]
    gc.collect(1)
    if c1.handler_exception is not None or c2.handler_exception is not None:
        viol.append({"case": cid, "clause": "no-exception-escapes-the-handler", "sig": sig,
                     "detail": "exception escaped start_client: %r %r | %s" % (c1.handler_exception, c2.handler_exception, sig)})
    if w.loop.handler_errors:
        viol.append({"case": cid, "clause": "no-stray-exceptions", "sig": sig, "detail": "%r | %s" % (w.loop.handler_errors[:2], sig)})
    closed = c1.closed_by_relay is not None or c1.task.done() or c1.dropped
    fr = frames_of(c1)
    if any(m[0] == "UNPARSEABLE" for m in fr):
        pass  # C04's business
    if not closed:
        # every later probe is answered
        if emb in ("mid", "twice", "five_times"):
            oks = [m for m in fr if m[0] == "OK" and m[1] == PROBE_EV["id"]]
            if len(oks) != 1:
                viol.append({"case": cid, "clause": "keeps-answering-wellformed-commands", "sig": sig,
                             "detail": "probe EVENT after the hostile frame got %d OK frames | %s" % (len(oks), sig)})
            p2 = [m for m in fr if m[0] in ("EOSE", "EVENT") and m[1] == "p2"]
            notices = [m for m in fr if m[0] == "NOTICE"]
            if not any(m[0] == "EOSE" for m in p2) and not notices:
                viol.append({"case": cid, "clause": "keeps-answering-wellformed-commands", "sig": sig,
                             "detail": "probe REQ after the hostile frame got neither EOSE nor NOTICE | %s" % sig})
        if not c1.task.done() and c1.waiter is None and not c1.stalled:
            viol.append({"case": cid, "clause": "connection-not-wedged", "sig": sig, "detail": "handler neither finished nor waiting for input at quiescence | %s" % sig})
    else:
        # closed: registry entry gone, tasks finished
        if any(str(k).startswith("1.1.1.1") for k in w.storage.clients):
            viol.append({"case": cid, "clause": "closed-connection-leaves-nothing", "sig": sig, "detail": "registry still lists the closed connection | %s" % sig})
        if not c1.task.done():
            viol.append({"case": cid, "clause": "closed-connection-leaves-nothing", "sig": sig, "detail": "handler still pending after close | %s" % sig})
    # connection 2 undisturbed
    view = c2_view(x)
    # compared as sets: under a deviating schedule connection 2's own event may legitimately arrive twice (stored copy + live push
    # while its stored query is still running, C05)
    if baseline_c2 is not None and sorted(set(view)) != sorted(set(baseline_c2)):
        viol.append({"case": cid, "clause": "other-connections-undisturbed", "sig": sig,
                     "detail": "connection 2 saw %r, without the hostile frame it sees %r | %s" % (view[-3:], baseline_c2[-3:], sig)})
    if c2.closed_by_relay is not None or c2.task.done():
        viol.append({"case": cid, "clause": "other-connections-undisturbed", "sig": sig, "detail": "connection 2 was closed | %s" % sig})
    # leak check: disconnect everything, nothing may remain
    for c in (c1, c2):
        if not c.dropped:
            c.drop()
    w.run(1e6)
    import asyncio

    pending = [t for t in asyncio.all_tasks(w.loop) if not t.done() and "Periodic" not in repr(t.get_coro())]
    if len(w.storage.clients) or pending:
        viol.append({"case": cid, "clause": "everything-dropped-at-disconnect", "sig": sig,
                     "detail": "after both connections ended: %d registry entries, pending tasks %r | %s" % (len(w.storage.clients), [repr(t.get_coro())[:60] for t in pending][:3], sig)})


_BASE = {}


def baseline(backend, emb, auth):
    key = (backend, emb, auth)
    if key not in _BASE:
        scn = make_scenario(backend, None, emb, auth)
        x = explorer.run(scn, [])
        try:
            _BASE[key] = c2_view(x)
        finally:
            x.world.close()
    return _BASE[key]


# ---------------------------------------------------------------------------------------------------
# Rate limits configured: every connection end runs the limiter's cleanup() inside the handler's finally block.  All short histories of
# commands, silences and connection ends of two addresses; nothing may escape any handler and later commands are still answered.
RL_RULES = {"ip": {"EVENT": "10/s", "CLOSE": "10/s", "REQ": "10/s"}}
RL_ALPHA_Q = ["c1:EVENT", "c1:CLOSE", "WAIT", "c2:RECONNECT", "c1:RECONNECT"]
RL_ALPHA_T = RL_ALPHA_Q + ["c1:REQ", "c2:EVENT"]


def run_ratelimited(case):
    import itertools
    from ..harness import World

    _, backend, first, _, tier = case
    alpha = RL_ALPHA_Q if tier == "quick" else RL_ALPHA_T
    depth = 5
    viol = []
    cid = "ratelimited|%s" % backend
    n = 0
    evs = [make_event("A", 1, 900 + i, [], "rl %d" % i) for i in range(8)]
    for rest in itertools.product(alpha, repeat=depth - 1):
        seqn = (first,) + rest
        w = World(backend, rate_limits=RL_RULES, storage_options={"stats_interval": 1e15}, message_timeout=1e300)
        try:
            conns = {"c1": w.connect("c1", "1.1.1.1"), "c2": w.connect("c2", "2.2.2.2")}
            w.run(1e6)
            ended = []
            ei = 0
            for j, act in enumerate(seqn):
                if act == "WAIT":
                    w.loop.advance(1.5)
                    continue
                cn, cmd = act.split(":")
                if cmd == "RECONNECT":
                    old = conns[cn]
                    old.drop()
                    w.run(1e6)
                    ended.append((old, ",".join(seqn[: j + 1])))
                    w.conns.pop(cn, None)
                    conns[cn] = w.connect(cn, "1.1.1.1" if cn == "c1" else "2.2.2.2")
                    w.run(1e6)
                    continue
                fr = ["EVENT", evs[ei]] if cmd == "EVENT" else (["CLOSE", "s"] if cmd == "CLOSE" else ["REQ", "s", {"kinds": [1], "limit": 1}])
                if cmd == "EVENT":
                    ei += 1
                w.send(cn, fr, 1e6)
                n += 1
            # a final probe on each connection, then both end
            for cn in ("c1", "c2"):
                n0 = len(conns[cn].transcript)
                w.send(cn, ["EVENT", evs[7] if cn == "c1" else evs[6]], 1e6)
                if conns[cn].closed_by_relay is None and not any(k == "send" and p.startswith('["OK"') for k, _, p in conns[cn].transcript[n0:]):
                    viol.append({"case": cid, "clause": "keeps-answering-wellformed-commands", "sig": ",".join(seqn) + "|" + cn,
                                 "detail": "the final EVENT on %s got no OK | seq=%s" % (cn, ",".join(seqn))})
            for cn in ("c1", "c2"):
                conns[cn].drop()
                w.run(1e6)
                ended.append((conns[cn], ",".join(seqn) + ",end:" + cn))
            for c, h in ended:
                if c.handler_exception is not None:
                    viol.append({"case": cid, "clause": "no-exception-escapes-the-handler", "sig": h + "|" + type(c.handler_exception).__name__,
                                 "detail": "the handler of %s ended with %r | seq=%s" % (c.name, c.handler_exception, h)})
                    break
            if w.loop.handler_errors:
                viol.append({"case": cid, "clause": "no-exception-escapes-the-handler", "sig": ",".join(seqn) + "|loop", "detail": repr(w.loop.handler_errors[:2])})
            left = w.loop.run_coro(w.storage.num_subscriptions(), horizon=10.0)
            if left.get("total"):
                viol.append({"case": cid, "clause": "everything-dropped-at-disconnect", "sig": ",".join(seqn), "detail": "%r subscriptions left after both connections ended | seq=%s" % (left, ",".join(seqn))})
        finally:
            w.close()
    uniq = {}
    for v in viol:
        uniq.setdefault((v["clause"], v["sig"]), v)
    return {"id": "%s|%s" % (cid, first), "viol": list(uniq.values()), "outcome": None, "evals": n, "states": n, "transitions": n, "nontrivial": True,
            "desc": describe(case), "extra": {"ratelimited_commands": n}, "sample": {"mode": "ratelimited", "backend": backend, "first": first, "commands": n}}


def run_case(case):
    if case[0] == "slow":
        return run_slow(case)
    if case[0] == "ratelimited":
        return run_ratelimited(case)
    mode, backend, emb, names, tier = case
    viol = []
    n = 0
    outcomes = set()
    points = 0
    for hname in names:
        for auth in ((0, 1) if hname.startswith(("AUTH", "short_AUTH")) else (0,)):
            scn = make_scenario(backend, hname, emb, auth)
            cid = "%s|%s|%s" % (backend, emb, mode)
            base = baseline(backend, emb, auth)

            def on_exec(x, hname=hname, auth=auth):
                sig = "%s|auth=%d|sched=%s" % (hname, auth, explorer.rle([c for c in x.choices]) if any(x.choices) else "default")
                outcomes.add(json.dumps([frames_of(x.world.conns["c1"])[-3:]], default=str))
                judge(x, base, viol, cid, sig, hname, emb)

            if mode == "d0":
                k, _ = explorer.explore(scn, 0, on_exec)
            else:
                k, _ = explorer.explore(scn, 1, on_exec)
            n += k
    return {"id": "%s|%s|%s|%s" % (mode, backend, emb, names[0]), "viol": viol, "outcome": sorted(outcomes), "outcome_is_set": True, "evals": n, "states": n,
            "transitions": n, "nontrivial": True, "desc": describe(case), "extra": {"executions_%s" % mode: n},
            "sample": {"mode": mode, "backend": backend, "embedding": emb, "frames": list(names)[:3], "executions": n}}


def coverage(tier, agg):
    return {
        "rule": "%d hostile frames (each of %d JSON values as the frame, the command, the EVENT payload, every event field, tag list / tag / tag item, "
                "the REQ sub id, the filter, every filter key and list member, the CLOSE and AUTH argument; missing and extra event fields; short "
                "frames; unknown and lower-case commands; 40 filters; malformed delegation; 20 invalid / huge / deeply nested JSON texts) x embeddings "
                "{between probes, twice, five times, followed by disconnect} x backends at the default schedule, plus every 1-deviation schedule for %d frames; "
                "connection 2 subscribes before and submits after; rate-limited: every history of 5 actions over {EVENT, CLOSE, silence of 1.5 s, "
                "reconnect of either address (thorough: also REQ and an EVENT of the other address)} with per-address limits configured (each connection end runs the "
                "limiter's cleanup in the handler's finally block); oracle: nothing escapes start_client, no unretrieved task exception, later "
                "probes answered or connection closed with registry entry and tasks gone, connection 2's transcript equal to the run without the "
                "hostile frame, nothing left after both disconnect." % (len(HF()), len(T), (len(SUBSET) + len(HF()) // 3) if tier == "thorough" else 6),
        "backends": ["sql", "kv"],
    }


def replay(desc):
    r = run_case((desc["mode"], desc["backend"], desc["embedding"], tuple(desc["frames"]), desc.get("tier", "quick")))
    for v in r["viol"][:20]:
        print(v["clause"], v["detail"][:500])
    return r["viol"]
