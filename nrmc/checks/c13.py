"""C13 - subscription protocol: one EOSE per REQ, CLOSE and replacement end delivery, limit respected.
Part 1 (seq): every command sequence up to the depth bound over an 18-letter alphabet on one connection
(subscription_limit = 2), default schedule, both backends, against a registry model.
Part 2 (sched): schedule exploration (deviation bounded) of scenarios in which CLOSE / same-id REQ /
disconnect race with the stored-query task and the sender task (a stalled send makes queued frames visible)."""
import json
import itertools

from .. import refmodel as R, explorer
from ..explorer import Scenario, DROP
from ..harness import World
from ..universe import make_event

ID = "C13"
LEVEL = "model_checking"
ASSUMPTIONS = ["real nostr_relay code imported from /repo's working tree, driven through web.start_client / the storage API; SQLite runs for real behind a same-thread connection shim (bound to real aiosqlite by C06's conformance cases); LMDB is an in-memory double (bound to the real liblmdb by C10's conformance cases), msgpack is pip's pure-python codec; asyncio runs on a controlled virtual-time loop; filter validity is decided by the relay's own NostrQuery validator (C13 is about the protocol, not about which filters are valid)"]
CHUNK = 1
LIMIT = 2

E0 = make_event("A", 1, 100, [], "stored kind 1")
E00 = make_event("A", 2, 101, [], "stored kind 2")
E1 = make_event("B", 1, 200, [], "live kind 1")
E2 = make_event("B", 2, 201, [], "live kind 2")
E3 = make_event("B", 1, 202, [], "live kind 1 again")

ALPHA = {
    "REQ_a_k1": ["REQ", "a", {"kinds": [1]}],
    "REQ_b_k2": ["REQ", "b", {"kinds": [2]}],
    "REQ_a_k2": ["REQ", "a", {"kinds": [2]}],
    "REQ_c_k1": ["REQ", "c", {"kinds": [1]}],
    "REQ_a_nofilter": ["REQ", "a"],
    "REQ_a_invalid": ["REQ", "a", {"kinds": "x"}],
    "REQ_b_valid_invalid": ["REQ", "b", {"kinds": [1]}, {"ids": ["zz"]}],
    "REQ_a_nondict": ["REQ", "a", "notadict"],
    "REQ_b_valid_emptytag": ["REQ", "b", {"#p": ["x"], "#a": []}, {"kinds": [1]}],
    "REQ_a_unhashable": ["REQ", "a", {"#e": [[1]]}],
    "REQ_5_k1": ["REQ", 5, {"kinds": [1]}],
    "REQ_null_k1": ["REQ", None, {"kinds": [1]}],
    "REQ_list_k1": ["REQ", [1], {"kinds": [1]}],
    # more filters than the SQL engine takes terms in one compound SELECT (500): answered all the same (EOSE or NOTICE)
    "REQ_m_501_filters": ["REQ", "m"] + [{"kinds": [1000 + i]} for i in range(501)],
    "REQ_empty_k1": ["REQ", "", {"kinds": [1]}],  # the empty string is a legal subscription id
    "CLOSE_empty": ["CLOSE", ""],
    "CLOSE_a": ["CLOSE", "a"],
    "CLOSE_b": ["CLOSE", "b"],
    "CLOSE_zz": ["CLOSE", "zz"],
    "CLOSE_5": ["CLOSE", 5],
    "EVENT_e1": ["EVENT", E1],
    "EVENT_e2": ["EVENT", E2],
    "DROP": DROP,
}
QUICK_ALPHA = ["REQ_a_k1", "REQ_b_k2", "REQ_a_k2", "REQ_c_k1", "REQ_a_invalid", "REQ_b_valid_invalid", "REQ_b_valid_emptytag", "REQ_a_unhashable", "REQ_5_k1", "REQ_empty_k1", "REQ_m_501_filters",
               "CLOSE_empty", "CLOSE_a", "CLOSE_zz", "CLOSE_5", "EVENT_e1", "EVENT_e2", "DROP"]


def seq_cases(tier):
    names = list(ALPHA) if tier == "thorough" else QUICK_ALPHA
    depth = 4 if tier == "thorough" else 3
    out = []
    for backend in ("sql", "kv"):
        for first in names:
            if tier == "thorough":
                for second in names:
                    out.append(("seq", backend, (first, second), depth, tier))
            else:
                out.append(("seq", backend, (first,), depth, tier))
    return out


def cases(tier):
    return seq_cases(tier) + sched_cases(tier)


def describe(case):
    return {"mode": case[0], "backend": case[1], "arg": list(case[2]) if isinstance(case[2], tuple) else case[2], "depth": case[3], "tier": case[4]}


# ---------------------------------------------------------------------------------------------------
def valid_filters(ns, raws):
    out = []
    for raw in raws:
        try:
            q = ns.base.NostrQuery.model_validate(json.loads(json.dumps(raw)))
            out.append(json.loads(json.dumps(raw)))
        except (ns.base.ValidationError, ns.errors.StorageError):
            pass
        except Exception:
            return None
    return out


def run_sequence(backend, seqnames, viol, cid, stats):
    """one fresh World per sequence; returns an outcome string"""
    w = World(backend, config={"subscription_limit": LIMIT}, storage_options={"stats_interval": 1e15}, message_timeout=1e300)
    ns = w.ns
    try:
        c = w.connect("c")
        feeder = w.connect("f", "2.2.2.2")
        w.run(1e6)
        for ev in (E0, E00):
            w.send("f", ["EVENT", ev], 1e6)
        subs = {}  # model: sid(str) -> list of raw valid filters
        stored = {E0["id"]: E0, E00["id"]: E00}
        closed = False
        hist = []
        out = []
        for nm in seqnames:
            frame = ALPHA[nm]
            hist.append(nm)
            h = ",".join(hist)
            if closed:
                break
            n0 = len(c.transcript)
            if frame == DROP:
                c.drop()
                w.run(1e6)
                closed = True
                if len(w.storage.clients) > 1 or any(str(k).startswith("1.1.1.1") for k in w.storage.clients):
                    viol.append({"case": cid, "clause": "disconnect-drops-subscriptions", "sig": h, "detail": "storage.clients still lists the connection after disconnect | seq=%s" % h})
                if not c.task.done():
                    viol.append({"case": cid, "clause": "disconnect-ends-handler", "sig": h, "detail": "handler task still pending after disconnect | seq=%s" % h})
                # events after disconnect must not produce frames
                n1 = len(c.transcript)
                w.send("f", ["EVENT", E3], 1e6)
                if any(t[0] == "send" for t in c.transcript[n1:]):
                    viol.append({"case": cid, "clause": "no-frames-after-disconnect", "sig": h, "detail": "frame sent after disconnect | seq=%s" % h})
                out.append("drop")
                continue
            w.send("c", frame, 1e6)
            stats["commands"] += 1
            new = c.transcript[n0:]
            sent = []
            for t in new:
                if t[0] == "send":
                    try:
                        sent.append(json.loads(t[2]))
                    except ValueError:
                        sent.append(["UNPARSEABLE", t[2]])
            relay_closed = c.closed_by_relay is not None or c.task.done()
            kinds = [m[0] for m in sent]
            if frame[0] == "REQ":
                sid = str(frame[1])
                sid_is_scalar_string = isinstance(frame[1], str)
                vf = valid_filters(ns, frame[2:])
                ev_frames = [m for m in sent if m[0] == "EVENT"]
                eoses = [m for m in sent if m[0] == "EOSE"]
                notices = [m for m in sent if m[0] == "NOTICE"]
                foreign = [m for m in sent if m[0] in ("EVENT", "EOSE") and m[1] != sid]
                if foreign:
                    viol.append({"case": cid, "clause": "frames-only-for-this-subscription", "sig": h, "detail": "REQ %r produced frames for other ids: %r | seq=%s" % (sid, foreign[:2], h)})
                if relay_closed:
                    closed = True
                    if not notices and (isinstance(frame[1], (str, int, float, bool)) or frame[1] is None):
                        viol.append({"case": cid, "clause": "req-never-met-with-silence", "sig": h,
                                     "detail": "REQ answered by closing the connection without NOTICE | seq=%s" % h})
                    out.append("closed")
                    continue
                if notices and not eoses:
                    # refused: existing subscriptions stay intact (model unchanged) - except that a refused REQ which re-uses an
                    # open id may or may not have ended the old subscription (NIP-01 is silent): the registry decides
                    if sid in subs:
                        reg = [v for k, v in w.storage.clients.items() if str(k).startswith("1.1.1.1")]
                        if not reg or sid not in reg[0]:
                            subs.pop(sid)
                    out.append("notice")
                    if ev_frames:
                        viol.append({"case": cid, "clause": "refused-req-sends-no-events", "sig": h, "detail": "refused REQ delivered events | seq=%s" % h})
                elif len(eoses) == 1:
                    # accepted (or accepted-as-empty): old same-id subscription is over in both cases
                    subs.pop(sid, None)
                    if vf:
                        subs[sid] = vf
                        want = [e for e in stored.values() if any(R.matches(f, e, "loose") for f in vf)]
                        got_ids = [m[2].get("id") for m in ev_frames]
                        for m in ev_frames:
                            e = stored.get(m[2].get("id"))
                            if e is None or not any(R.matches(f, e, "loose") for f in vf):
                                viol.append({"case": cid, "clause": "stored-events-match", "sig": h, "detail": "REQ delivered a non-matching event | seq=%s" % h})
                        for e in want:
                            if got_ids.count(e["id"]) != 1:
                                viol.append({"case": cid, "clause": "stored-events-then-eose", "sig": h,
                                             "detail": "stored match delivered %d times before EOSE | seq=%s" % (got_ids.count(e["id"]), h)})
                        if kinds and kinds[-1] != "EOSE":
                            viol.append({"case": cid, "clause": "stored-events-then-eose", "sig": h, "detail": "frames after EOSE: %r | seq=%s" % (kinds, h)})
                    elif ev_frames:
                        viol.append({"case": cid, "clause": "stored-events-match", "sig": h, "detail": "REQ without valid filters delivered events | seq=%s" % h})
                    out.append("eose%d" % len(ev_frames))
                elif len(eoses) > 1:
                    viol.append({"case": cid, "clause": "exactly-one-eose", "sig": h, "detail": "%d EOSE frames for one REQ | seq=%s" % (len(eoses), h)})
                    out.append("eose+")
                else:
                    viol.append({"case": cid, "clause": "req-never-met-with-silence", "sig": h,
                                 "detail": "REQ %r answered by neither EOSE nor NOTICE (frames: %r) | seq=%s" % (frame[1], kinds, h)})
                    out.append("silence")
                    if vf:
                        subs.pop(sid, None)
            elif frame[0] == "CLOSE":
                subs.pop(str(frame[1]), None)
                if any(k in ("EVENT", "EOSE") for k in kinds):
                    viol.append({"case": cid, "clause": "close-ends-delivery", "sig": h, "detail": "CLOSE produced subscription frames %r | seq=%s" % (kinds, h)})
                if relay_closed:
                    closed = True
                out.append("close")
            elif frame[0] == "EVENT":
                e = frame[1]
                oks = [m for m in sent if m[0] == "OK"]
                accepted = bool(oks) and oks[0][2] is True
                if accepted:
                    stored[e["id"]] = e
                pushes = [m for m in sent if m[0] == "EVENT"]
                for sid, fl in subs.items():
                    should = accepted and any(R.matches(f, e, "loose") for f in fl)
                    n = sum(1 for m in pushes if m[1] == sid and m[2].get("id") == e["id"])
                    if should and n != 1:
                        viol.append({"case": cid, "clause": "open-subscription-keeps-receiving", "sig": h,
                                     "detail": "open subscription %r got %d pushes of a matching event | seq=%s" % (sid, n, h)})
                    if not should and n:
                        viol.append({"case": cid, "clause": "no-frames-for-non-matching", "sig": h, "detail": "subscription %r got a non-matching push | seq=%s" % (sid, h)})
                for m in pushes:
                    if m[1] not in subs:
                        viol.append({"case": cid, "clause": "no-frames-after-close-or-replace", "sig": h,
                                     "detail": "push for %r which is not an open subscription (closed, replaced, refused or never opened) | seq=%s" % (m[1], h)})
                if relay_closed:
                    closed = True
                out.append("ev%d" % len(pushes))
            # registry invariant in every state
            n_subs = [len(v) for k, v in w.storage.clients.items() if str(k).startswith("1.1.1.1")]
            if n_subs and n_subs[0] > LIMIT:
                viol.append({"case": cid, "clause": "subscription-limit", "sig": h, "detail": "connection holds %d subscriptions (limit %d) | seq=%s" % (n_subs[0], LIMIT, h)})
            if not closed and n_subs and n_subs[0] != len(subs):
                viol.append({"case": cid, "clause": "registry-agrees-with-protocol", "sig": h,
                             "detail": "registry holds %d subscriptions, protocol model %d (%r) | seq=%s" % (n_subs[0], len(subs), sorted(subs), h)})
            if c.log.exceptions:
                stats["handler_logged_exceptions"] += len(c.log.exceptions)
                del c.log.exceptions[:]
        return ">".join(out)
    finally:
        w.close()


def run_seq(case):
    _, backend, prefix, depth, tier = case
    names = list(ALPHA) if tier == "thorough" else QUICK_ALPHA
    viol = []
    cid = "seq|%s" % backend
    stats = {"commands": 0, "handler_logged_exceptions": 0}
    outcomes = set()
    n = 0
    for rest in itertools.product(names, repeat=depth - len(prefix)):
        seqn = list(prefix) + list(rest)
        # sequences continuing after DROP are covered by their prefix
        if "DROP" in seqn[:-1]:
            continue
        outcomes.add(run_sequence(backend, seqn, viol, cid, stats))
        n += 1
    # one violation per (clause, shortest history prefix): the sig is the history up to the failing command
    uniq = {}
    for v in viol:
        uniq.setdefault((v["clause"], v["sig"]), v)
    return {"id": "seq|%s|%s" % (backend, ",".join(prefix)), "viol": list(uniq.values()), "outcome": sorted(outcomes), "outcome_is_set": True,
            "evals": n, "states": len(outcomes), "transitions": stats["commands"], "nontrivial": len(outcomes) > 1, "desc": describe(case),
            "extra": {"seq_sequences": n, "seq_commands": stats["commands"], "handler_logged_exceptions": stats["handler_logged_exceptions"]},
            "sample": {"mode": "seq", "backend": backend, "prefix": list(prefix), "sequences": n, "distinct_outcomes": len(outcomes)}}


# ---------------------------------------------------------------------------------------------------
# Part 2: schedules
S_E = [make_event("A", 1, 100 + i, [], "s%d" % i) for i in range(3)]
S_K2 = make_event("A", 2, 150, [], "k2")


def _setup_store(w):
    f = w.connect("setup", "9.9.9.9")
    w.run(1e6)
    for ev in S_E + [S_K2]:
        w.send("setup", ["EVENT", ev], 1e6)
    f.drop()
    w.run(1e6)
    del w.conns["setup"]
    # non-vacuity: the scenario's pre-stored events really are in the store
    from ..store import decode_store
    from ..env import HarnessError

    have = decode_store(w.backend, w.dump())
    missing = [e["id"][:8] for e in S_E + [S_K2] if e["id"] not in have]
    if missing:
        raise HarnessError("scenario setup did not store %r" % missing)


SCENARIOS = {
    # name: (script, allow_drop, stall)
    "close_while_query_runs": ([("c", ["REQ", "a", {"kinds": [1]}]), ("c", ["CLOSE", "a"]), ("d", ["EVENT", E1])], (), ("c",)),
    "replace_while_query_runs": ([("c", ["REQ", "a", {"kinds": [1]}]), ("c", ["REQ", "a", {"kinds": [2]}]), ("d", ["EVENT", E1]), ("d", ["EVENT", E2])], (), ("c",)),
    "disconnect_while_query_runs": ([("c", ["REQ", "a", {"kinds": [1]}]), ("d", ["EVENT", E1]), ("c", DROP)], ("c",), ()),
    "limit_reached_by_replacement": ([("c", ["REQ", "a", {"kinds": [1]}]), ("c", ["REQ", "b", {"kinds": [2]}]), ("c", ["REQ", "a", {"kinds": [2]}]),
                                      ("c", ["REQ", "c", {"kinds": [1]}]), ("d", ["EVENT", E1]), ("d", ["EVENT", E2])], (), ()),
    # a query cancelled in flight must give back whatever it holds: the next REQ (only ONE query slot configured) is still answered
    "req_after_cancelled_query": ([("c", ["REQ", "a", {"kinds": [1]}]), ("c", ["CLOSE", "a"]), ("c", ["REQ", "b", {"kinds": [2]}]), ("d", ["REQ", "z", {"kinds": [1]}])], (), ()),
    "req_after_replaced_query": ([("c", ["REQ", "a", {"kinds": [1]}]), ("c", ["REQ", "a", {"kinds": [2]}]), ("c", ["REQ", "b", {"kinds": [1]}])], (), ()),
    # the CLOSE / replacing REQ reaches the relay while another connection's matching EVENT is being stored and fanned out: it may be
    # processed between the creation of the per-subscription notify tasks and their execution
    "close_during_fanout": ([("c", ["REQ", "a", {"kinds": [1]}]), ("d", ["EVENT", E1]), ("c", ["CLOSE", "a"]), ("d", ["EVENT", E3])], (), ()),
    "replace_during_fanout": ([("c", ["REQ", "a", {"kinds": [1]}]), ("d", ["EVENT", E1]), ("c", ["REQ", "a", {"kinds": [2]}]), ("d", ["EVENT", E3])], (), ()),
    "two_connections": ([("c", ["REQ", "a", {"kinds": [1]}]), ("d", ["REQ", "a", {"kinds": [1]}]), ("c", ["CLOSE", "a"]), ("d", ["EVENT", E1])], (), ()),
}


def make_scenario(name, backend):
    base, _, policy = name.partition("@")
    script, allow_drop, stall = SCENARIOS[base]
    so = {"stats_interval": 1e15}
    if name.startswith("req_after_"):
        so.update({"num_concurrent_reqs": 1, "pool_size": 1})
    return Scenario("%s|%s" % (name, backend), backend, [("c", "1.1.1.1"), ("d", "2.2.2.2")], script,
                    config={"subscription_limit": LIMIT}, storage_options=so, allow_drop=allow_drop, stall=stall,
                    setup=_setup_store, horizon=30.0, policy=policy or "actor")


def sched_cases(tier):
    out = []
    from .. import env

    env.boot()
    bound = 1 if tier == "quick" else 2
    for backend in ("sql", "kv"):
        for name in [n + sfx for n in SCENARIOS for sfx in ("", "@fair")]:
            scn = make_scenario(name, backend)
            out.append(("sched", backend, name, (), tier))
            if bound >= 1:
                firsts, npts = explorer.first_level(scn)
                for p in firsts:
                    out.append(("sched", backend, name, tuple(p), tier))
    return out


def judge_schedule(x, name, viol, cid, sig):
    """R2 interval semantics on connection c's transcript"""
    w = x.world
    c = w.conns["c"]
    script = [fr for cn, fr in SCENARIOS[name.partition("@")[0]][0] if cn == "c"]
    # walk the transcript: track per sub-id the state machine
    recv_i = -1
    state = {}  # sid -> dict(open=bool, filters, eose=int, closed_mark=bool)
    pending_end = {}  # sid -> filters of the subscription being ended by the command in progress
    for kind, seqno, payload in c.transcript:
        if kind == "recv":
            recv_i += 1
            try:
                m = json.loads(payload)
            except ValueError:
                continue
            if m[0] == "REQ":
                sid = str(m[1])
                old = state.get(sid)
                state[sid] = {"filters": m[2:], "eose": 0, "ended": False, "old": (old["filters"] if old and not old["ended"] else None),
                              "processing": True, "gen": (old["gen"] + 1 if old else 0)}
            elif m[0] == "CLOSE":
                sid = str(m[1])
                if sid in state:
                    state[sid]["closing"] = True
        elif kind == "mark":
            # handler is back in recv(): every command received so far has been fully processed
            for sid, st in state.items():
                st["processing"] = False
                if st.get("closing"):
                    st["ended"] = True
                st["old"] = None  # frames that can only belong to the replaced subscription are now forbidden
                st["old_forbidden"] = True
        elif kind == "send":
            try:
                m = json.loads(payload)
            except ValueError:
                continue
            if m[0] == "EOSE":
                st = state.get(m[1])
                if st is None:
                    viol.append({"case": cid, "clause": "frames-only-for-known-subscriptions", "sig": sig, "detail": "EOSE for unknown id %r" % m[1]})
                    continue
                st["eose"] += 1  # an EOSE after CLOSE is tolerated ("at most one"): only EVENT frames are "events sent for the old subscription"
            elif m[0] == "EVENT":
                st = state.get(m[1])
                if st is None:
                    viol.append({"case": cid, "clause": "frames-only-for-known-subscriptions", "sig": sig, "detail": "EVENT for unknown id %r" % m[1]})
                    continue
                ev = m[2]
                if st["ended"]:
                    viol.append({"case": cid, "clause": "no-frames-after-close", "sig": sig,
                                 "detail": "EVENT for %r sent (ws_send started) after its CLOSE had been processed" % m[1]})
                    continue
                fits_new = any(isinstance(f, dict) and R.matches(f, ev, "loose") for f in st["filters"])
                if not fits_new:
                    if st.get("old_forbidden") or st.get("gen", 0) == 0:
                        viol.append({"case": cid, "clause": "no-frames-for-replaced-subscription", "sig": sig,
                                     "detail": "EVENT for %r does not match its current filters %r (it can only belong to the replaced subscription) and was "
                                               "sent after the replacing REQ had been processed" % (m[1], st["filters"])})
    for sid, st in state.items():
        if st["eose"] > 1 and st.get("gen", 0) == 0:
            viol.append({"case": cid, "clause": "at-most-one-eose", "sig": sig, "detail": "%d EOSE frames for %r" % (st["eose"], sid)})
        if st["eose"] == 0 and not st["ended"] and not c.dropped and c.closed_by_relay is None:
            notices = [1 for k, _, p in c.transcript if k == "send" and p.startswith('["NOTICE"')]
            if not notices:
                viol.append({"case": cid, "clause": "exactly-one-eose", "sig": sig, "detail": "no EOSE for open subscription %r at quiescence" % sid})
    # the other connection's REQs are answered too
    d = w.conns.get("d")
    if d is not None:
        d_reqs = [fr for cn, fr in SCENARIOS[name.partition("@")[0]][0] if cn == "d" and isinstance(fr, list) and fr[0] == "REQ"]
        d_eose = sum(1 for k, _, p in d.transcript if k == "send" and p.startswith('["EOSE"'))
        d_notice = sum(1 for k, _, p in d.transcript if k == "send" and p.startswith('["NOTICE"'))
        if d_eose + d_notice < len(d_reqs) and not d.dropped:
            viol.append({"case": cid, "clause": "exactly-one-eose", "sig": sig, "detail": "connection d: %d REQs, %d EOSE, %d NOTICE at quiescence" % (len(d_reqs), d_eose, d_notice)})
    n_subs = [len(v) for k, v in w.storage.clients.items() if str(k).startswith("1.1.1.1")]
    if n_subs and n_subs[0] > LIMIT:
        viol.append({"case": cid, "clause": "subscription-limit", "sig": sig, "detail": "connection holds %d subscriptions" % n_subs[0]})
    if c.dropped and (n_subs or not c.task.done()):
        viol.append({"case": cid, "clause": "disconnect-drops-subscriptions", "sig": sig, "detail": "after disconnect: registry entries %r, handler done=%s" % (n_subs, c.task.done())})
    if w.loop.handler_errors:
        viol.append({"case": cid, "clause": "no-stray-exceptions", "sig": sig, "detail": repr(w.loop.handler_errors[:2])})


def run_sched(case):
    _, backend, name, prefix, tier = case
    scn = make_scenario(name, backend)
    bound = 1 if tier == "quick" else 2
    remaining = bound - (1 if prefix else 0)
    viol = []
    cid = "sched|%s|%s" % (name, backend)
    outcomes = set()
    stats = {"n": 0, "points": 0}

    def on_exec(x):
        sig = "sched=%s" % explorer.rle(x.choices)
        before = len(viol)
        judge_schedule(x, name, viol, cid, sig)
        outcomes.add(json.dumps([x.world.conns[k].sent() for k in sorted(x.world.conns)]))
        stats["n"] += 1
        stats["points"] += len(x.points)
        if len(viol) > before:
            for v in viol[before:]:
                v["detail"] += " | scenario=%s schedule=%s" % (scn.name, x.choices)
                v["exact"] = {"scenario": name, "backend": backend, "choices": list(x.choices)}

    if not prefix:
        n, capped = explorer.explore(scn, 0, on_exec)
    else:
        n, capped = explorer.explore(scn, remaining, on_exec, root_prefix=list(prefix))
    return {"id": "%s|p=%s" % (cid, explorer.rle(list(prefix))), "viol": viol, "outcome": sorted(outcomes), "outcome_is_set": True,
            "evals": stats["n"], "states": stats["points"], "transitions": stats["points"], "nontrivial": True, "desc": describe(case),
            "extra": {"sched_executions": stats["n"], "sched_choice_points": stats["points"]},
            "sample": {"mode": "sched", "scenario": scn.name, "prefix": list(prefix), "executions": stats["n"]}}


def run_case(case):
    return run_seq(case) if case[0] == "seq" else run_sched(case)


def coverage(tier, agg):
    return {
        "rule": "seq: all sequences of depth %d over %d commands (REQ a/b/c valid, same id other filter, no filter, invalid, valid+invalid, non-dict, "
                "unhashable tag value, sub ids 5/null/[1], CLOSE a/b/unknown, two EVENTs, disconnect) on one connection with subscription_limit=2, "
                "both backends, fresh world per sequence, registry model oracle; sched: scenarios %s explored with <= %d deviations from the default "
                "schedule (send stall on the subscriber where listed), R2 interval oracle on the transcript (frames whose ws_send starts after the "
                "handler finished processing CLOSE / the replacing REQ). states/transitions: seq = distinct outcome strings / commands executed; "
                "sched = choice points visited." % (4 if tier == "thorough" else 3, len(ALPHA) if tier == "thorough" else len(QUICK_ALPHA),
                                                      sorted(SCENARIOS), 2 if tier == "thorough" else 1),
        "backends": ["sql", "kv"],
    }


def replay(desc):
    arg = desc["arg"]
    if desc["mode"] == "seq":
        case = ("seq", desc["backend"], tuple(arg), desc["depth"], desc.get("tier", "quick"))
    else:
        case = ("sched", desc["backend"], arg, tuple(desc["depth"]) if isinstance(desc["depth"], list) else (), desc.get("tier", "quick"))
    r = run_case(case)
    for v in r["viol"][:30]:
        print(v["clause"], v["detail"][:500])
    return r["viol"]


def replay_exact(ex):
    scn = make_scenario(ex["scenario"], ex["backend"])
    viol = explorer.replay_schedule(scn, ex["choices"], lambda x, v: judge_schedule(x, ex["scenario"], v, "replay", "replay"))
    for v in viol:
        print(v["clause"], v["detail"][:400])
    return viol
