"""C20 - cross-worker notification delivers each event id intact, once, to other workers.
The real NotifyServer.handle_notify and NotifyClient.connect/notify run on the virtual loop over in-memory pipes built
on the real asyncio.StreamReader; the environment decides how the byte streams are chunked: every placement of up to
k cut points over all pipes of a scenario is enumerated (a cut = a TCP segment boundary; no cut = coalesced), with two
pipe service orders and an optional peer disconnect mid-stream."""
import types
import asyncio
import itertools

from ..env import HarnessError
from ..vloop import VLoop
from ..universe import make_event

ID = "C20"
LEVEL = "model_checking"
ASSUMPTIONS = ["TCP is represented by arbitrary chunking / coalescing of reliable in-order byte pipes plus 'peer disconnects'; kernel-level effects "
               "beyond that are not modelled", "each worker's storage is a stub over a shared event table (the notifier only calls get_event and "
               "notify_all_connected)"]
CHUNK = 1

EVS = [make_event("A", 1, 100 + i, [], "n%d" % i) for i in range(4)]
TABLE = {e["id"]: e for e in EVS}

# scenario: number of workers, steps: ('ann', worker, event index) | ('flush',) (deliver everything pending under the cut plan) | ('drop', worker)
SCENARIOS = {
    "two_workers_two_ids_coalesced": (2, [("ann", 0, 0), ("ann", 0, 1), ("flush",)]),
    "two_workers_spaced": (2, [("ann", 0, 0), ("flush",), ("ann", 0, 1), ("flush",)]),
    "two_workers_both_directions": (2, [("ann", 0, 0), ("ann", 1, 1), ("flush",), ("ann", 1, 2), ("flush",)]),
    "three_workers": (3, [("ann", 0, 0), ("ann", 0, 1), ("flush",), ("ann", 1, 2), ("flush",)]),
    "three_workers_peer_drops": (3, [("ann", 0, 0), ("flush",), ("drop", 2), ("ann", 0, 1), ("ann", 1, 2), ("flush",)]),
    # two senders at once: pieces of one sender's id can only interleave with another sender's bytes on a third worker's stream
    "three_workers_interleaved": (3, [("ann", 0, 0), ("ann", 1, 1), ("flush",), ("ann", 2, 2), ("ann", 0, 3), ("flush",)]),
    # the peer goes away with a connection reset (the server's read raises) instead of a clean end of stream, half an id sent
    "three_workers_peer_resets": (3, [("ann", 0, 0), ("flush",), ("half", 2), ("reset", 2), ("ann", 0, 1), ("ann", 1, 2), ("flush",)]),
}


class Pipe:
    def __init__(self, name, reader):
        self.name = name
        self.reader = reader
        self.buf = bytearray()
        self.sent = 0       # bytes written so far
        self.delivered = 0  # bytes fed to the reader so far
        self.cuts = ()
        self.closed = False

    def pending(self):
        return self.sent - self.delivered

    def deliver_next(self):
        """deliver up to the next cut point (or everything pending)"""
        if self.pending() <= 0:
            return 0
        nxt = [c for c in self.cuts if c > self.delivered]
        end = min([self.sent] + nxt)
        n = end - self.delivered
        chunk = bytes(self.buf[:n])
        del self.buf[:n]
        self.delivered = end
        if not self.closed:
            self.reader.feed_data(chunk)
        return n


class Writer:
    def __init__(self, pipe, peername):
        self.pipe = pipe
        self.peername = peername
        self.closed = False

    def write(self, data):
        if self.closed:
            raise ConnectionResetError("closed")
        self.pipe.buf += data
        self.pipe.sent += len(data)

    async def drain(self):
        if self.closed:
            raise ConnectionResetError("closed")

    def close(self):
        self.closed = True

    def get_extra_info(self, key):
        return self.peername if key == "peername" else None


class StubStorage:
    def __init__(self, name):
        self.name = name
        self.lookups = []
        self.notified = []

    async def get_event(self, idhex):
        self.lookups.append(idhex)
        e = TABLE.get(idhex)
        if e is None:
            return None
        return types.SimpleNamespace(id=e["id"], id_bytes=bytes.fromhex(e["id"]))

    async def notify_all_connected(self, event):
        self.notified.append(event.id)


def run_scenario(ns, name, cuts, order):
    nworkers, steps = SCENARIOS[name]
    loop = VLoop()
    loop.activate()
    N = ns.notifier
    real_asyncio = asyncio
    pending_conns = []

    async def fake_open_connection(address, port):
        return pending_conns.pop(0)

    N.asyncio = types.SimpleNamespace(sleep=real_asyncio.sleep, open_connection=fake_open_connection, create_task=real_asyncio.create_task,
                                      exceptions=real_asyncio.exceptions, start_server=None)
    try:
        server = N.NotifyServer()
        workers = []
        pipes = []
        for i in range(nworkers):
            r_srv = real_asyncio.StreamReader(loop=loop)  # server reads what worker i writes
            r_cli = real_asyncio.StreamReader(loop=loop)  # worker i reads what the server writes
            p_up = Pipe("w%d>S" % i, r_srv)
            p_dn = Pipe("S>w%d" % i, r_cli)
            w_cli = Writer(p_up, ("127.0.0.1", 7000 + i))
            w_srv = Writer(p_dn, ("127.0.0.1", 7000 + i))
            st = StubStorage("w%d" % i)
            client = N.NotifyClient(st)
            pending_conns.append((r_cli, w_cli))
            ctask = loop.create_task(client.connect())
            stask = loop.create_task(server.handle_notify(r_srv, w_srv))
            workers.append(dict(storage=st, client=client, ctask=ctask, stask=stask, up=p_up, dn=p_dn, w_srv=w_srv, w_cli=w_cli, r_srv=r_srv, r_cli=r_cli, alive=True))
            pipes += [p_up, p_dn]
        # cut plan: list of (pipe index, position)
        for pi, pos in cuts:
            pipes[pi].cuts = tuple(sorted(set(pipes[pi].cuts + (pos,))))
        loop.drain(horizon=10.0)  # clients pass their sleep(2) and connect
        announced = {i: [] for i in range(nworkers)}
        for st in steps:
            if st[0] == "ann":
                _, wi, ei = st
                ev = types.SimpleNamespace(id=EVS[ei]["id"], id_bytes=bytes.fromhex(EVS[ei]["id"]))
                loop.run_coro(workers[wi]["client"].notify(ev), horizon=10.0)
                announced[wi].append(EVS[ei]["id"])
            elif st[0] == "half":
                wk = workers[st[1]]
                wk["w_cli"].write(bytes.fromhex(EVS[3]["id"])[:16])
            elif st[0] == "reset":
                wk = workers[st[1]]
                wk["alive"] = False
                wk["up"].closed = True
                wk["dn"].closed = True
                wk["r_srv"].set_exception(ConnectionResetError("connection reset by peer"))
                wk["r_cli"].set_exception(ConnectionResetError("connection reset by peer"))
                wk["w_srv"].closed = True
                loop.drain(horizon=10.0)
            elif st[0] == "drop":
                wk = workers[st[1]]
                wk["alive"] = False
                wk["up"].closed = True
                wk["dn"].closed = True
                wk["r_srv"].feed_eof()
                wk["r_cli"].feed_eof()
                wk["w_srv"].closed = True
                loop.drain(horizon=10.0)
            else:
                guard = 0
                while True:
                    guard += 1
                    if guard > 10000:
                        raise HarnessError("C20 flush does not terminate")
                    seq_ = pipes if order == 0 else list(reversed(pipes))
                    moved = 0
                    for p in seq_:
                        if p.pending() > 0:
                            moved += p.deliver_next()
                            loop.drain(horizon=10.0)
                    if not moved:
                        break
        loop.drain(horizon=10.0)
        result = []
        for i, wk in enumerate(workers):
            result.append(dict(lookups=list(wk["storage"].lookups), notified=list(wk["storage"].notified), alive=wk["alive"],
                               client_done=wk["ctask"].done(), server_done=wk["stask"].done()))
        errors = list(loop.handler_errors)
        return announced, result, errors, [p.sent for p in pipes]
    finally:
        N.asyncio = real_asyncio
        loop.shutdown()


def cut_plans(name, k, ns):
    """all placements of <= k cut points over the pipes of the scenario (positions strictly inside each pipe's total stream)"""
    announced, result, errors, totals = run_scenario(ns, name, (), 0)
    points = [(pi, pos) for pi, tot in enumerate(totals) for pos in range(1, tot)]
    plans = [()]
    for r in range(1, k + 1):
        plans += list(itertools.combinations(points, r))
    return plans, totals


# ---------------------------------------------------------------------------------------------------
# Part 2: two REAL workers (two DBStorage objects on one SQLite file, each with its real NotifyClient) behind the real
# NotifyServer.handle_notify: the announcement must make the other worker push the event to its subscriber - under every
# schedule of SQL round trips, pipe deliveries and tasks with <= d deviations, and under two default policies
# ("disk first": SQL jobs before pipe deliveries; "network first": pipe deliveries before SQL jobs).
RW_EV = make_event("A", 1, 300, [["t", "x"], ["e", "ab" * 32]], "announced across workers")
RW_EV2 = make_event("A", 0, 301, [], "{}")
RW_EV3 = make_event("A", 20001, 302, [["t", "x"]], "ephemeral, announced like any other event")
RW_EARLY = make_event("B", 1, 299, [], "accepted while this worker's notifier client had not connected yet")
# "early": the subscriber's worker accepted RW_EARLY before its notifier client was connected (that announcement fails); afterwards
# the OTHER worker accepts RW_EV, which must still reach the subscriber
# "miss_first": the subscriber's worker looked the id up (and found nothing) before the other worker accepted the event
# "again": the event is accepted, deleted by its author and accepted again - each acceptance is announced and pushed like a local one
RW_DEL = make_event("A", 5, 400, [["e", RW_EV["id"]]], "")
RW_EVENTS = {"tagged": RW_EV, "kind0": RW_EV2, "ephemeral": RW_EV3, "early": RW_EV, "miss_first": RW_EV, "again": RW_EV}


class JobWriter:
    """writer double whose every write is delivered to the peer's StreamReader by an explorer-visible job (FIFO per pipe)"""

    def __init__(self, loop, reader, name, peername):
        self.loop = loop
        self.reader = reader
        self.name = name
        self.peername = peername
        self.closed = False
        self.queue = []

    def write(self, data):
        if self.closed:
            raise ConnectionResetError("closed")
        data = bytes(data)
        item = [data]
        self.queue.append(item)

        def deliver():
            self.queue.remove(item)
            self.reader.feed_data(data)

        job = self.loop.add_step_job("pipe", deliver, label=self.name)
        job.enabled = lambda: self.queue and self.queue[0] is item

    async def drain(self):
        return None

    def close(self):
        self.closed = True

    def get_extra_info(self, key):
        return self.peername if key == "peername" else None


def rw_scenario(backend, policy, evname):
    from ..explorer import Scenario
    import types

    ev = RW_EVENTS[evname]
    state = {}

    def setup(w):
        ns = w.ns
        N = ns.notifier
        loop = w.loop
        pending = []

        async def fake_open_connection(address, port):
            return pending.pop(0)

        N.asyncio = types.SimpleNamespace(sleep=asyncio.sleep, open_connection=fake_open_connection, create_task=asyncio.create_task,
                                          exceptions=asyncio.exceptions, start_server=None)
        server = N.NotifyServer()
        # second worker: its own DBStorage on the same database file (and the same single-writer lock model)
        opts = dict(ns.Config.storage)
        st2 = ns.db.DBStorage(dict(opts))
        storages = [w.storage, st2]
        for i, st in enumerate(storages):
            r_srv = asyncio.StreamReader(loop=loop)
            r_cli = asyncio.StreamReader(loop=loop)
            w_cli = JobWriter(loop, r_srv, "w%d>S" % i, ("127.0.0.1", 7000 + i))
            w_srv = JobWriter(loop, r_cli, "S>w%d" % i, ("127.0.0.1", 7000 + i))
            pending.append((r_cli, w_cli))
            loop.create_task(server.handle_notify(r_srv, w_srv))
        loop.run_coro(st2.setup(), horizon=1e6)
        if evname == "miss_first":
            if loop.run_coro(st2.get_event(RW_EV["id"]), horizon=1e6) is not None:
                raise HarnessError("the event is already there")
        if evname == "early":
            if w.storage.notifier is None or w.storage.notifier.writer is not None:
                raise HarnessError("the notifier client of worker 1 is already connected")
            c0 = w.connect("early", "3.3.3.3")
            w.run(0.25)
            w.send("early", ["EVENT", RW_EARLY], 0.25)
            if not any(k == "send" and p.startswith('["OK"') and "true" in p for k, _, p in c0.transcript):
                raise HarnessError("the early event was not accepted: %r" % (c0.transcript[-2:],))
            c0.drop()
            w.run(0.25)
            del w.conns["early"]
        # both NotifyClients (worker 1's was created by World's storage.setup()) are still in their initial sleep(2): let them connect
        loop.drain(horizon=10.0)
        if w.storage.notifier is None or w.storage.notifier.writer is None or st2.notifier.writer is None:
            raise HarnessError("notifier clients did not connect")
        state["st2"] = st2
        w._extra_storages = [st2]
        # which ids the other workers' announcements make each worker look up
        w._lookups = {0: [], 1: []}
        for i, st in enumerate(storages):
            def counted(eid, _orig=st.get_event, _i=i):
                w._lookups[_i].append(eid)
                return _orig(eid)

            st.get_event = counted

    def connect(w, name, addr):
        return w.connect(name, addr, storage=state["st2"] if name == ("pub" if evname == "early" else "sub") else None)

    def finish(w, x):
        import sqlalchemy as sa

        st2 = state.get("st2")
        if st2 is not None:
            try:
                w.loop.run_coro(st2.close(), horizon=10.0)
            except BaseException:
                pass
            try:
                sa.event.remove(sa.engine.base.Engine, "connect", st2._set_sqlite_pragma)
            except Exception:
                pass
        w.ns.notifier.asyncio = asyncio

    script = [("sub", ["REQ", "x", {"kinds": [ev["kind"]]}]), ("pub", ["EVENT", ev])]
    if evname == "again":
        script += [("pub", ["EVENT", RW_DEL]), ("pub", ["EVENT", ev])]
    return Scenario("realworkers|%s|%s|%s" % (backend, policy, evname), backend, [("sub", "2.2.2.2"), ("pub", "1.1.1.1")], script,
                    config={"run_notifier": True}, storage_options={"stats_interval": 1e15}, setup=setup, connect=connect, finish=finish,
                    horizon=30.0, job_priority=(["pipe", "exec"] if policy == "network-first" else ["exec", "sqlopen", "sqlmisc", "sql"]))


def rw_cases(tier):
    from .. import explorer

    out = []
    for policy in ("disk-first", "network-first"):
        for evname in ("tagged", "kind0", "ephemeral", "early", "miss_first", "again"):
            scn = rw_scenario("sql", policy, evname)
            out.append(("rw", policy, evname, ()))
            if tier == "thorough":
                firsts, npts = explorer.first_level(scn)
                for p in firsts:
                    out.append(("rw", policy, evname, tuple(p)))
    return out


def run_rw(case, tier):
    from .. import explorer
    import json

    _, policy, evname, prefix = case
    scn = rw_scenario("sql", policy, evname)
    ev = RW_EVENTS[evname]
    viol = []
    cid = "realworkers|%s|%s" % (policy, evname)
    stats = {"n": 0}
    outcomes = set()

    def on_exec(x):
        stats["n"] += 1
        sig = "sched=%s" % explorer.rle(x.choices)
        sub = x.world.conns["sub"]
        pub = x.world.conns["pub"]
        oks = [json.loads(p) for k, _, p in pub.transcript if k == "send" and p.startswith('["OK"')]
        pushes = [p for k, _, p in sub.transcript if k == "send" and p.startswith('["EVENT","x"') and ev["id"] in p]
        outcomes.add((len(oks), len(pushes)))
        if not (oks and oks[0][2] is True):
            viol.append({"case": cid, "clause": "publisher-acknowledged", "sig": sig, "detail": "publisher got %r | %s %s" % (oks[:1], scn.name, x.choices)})
        eose_seq = next((q for k, q, p in sub.transcript if k == "send" and p.startswith('["EOSE"')), None)
        ev_seq = next((q for k, q, p in pub.transcript if k == "recv" and '"EVENT"' in p), None)
        # a stored copy in addition to the live push is allowed while the subscriber's stored query was still running (C05)
        allowed = (1, 2) if (eose_seq is None or ev_seq is None or eose_seq > ev_seq) else (1,)
        if evname == "again":
            # every acceptance is announced: the subscriber's worker looks the id up once per acceptance; a push can only be missing when the
            # event had been deleted again by the time the announcement was looked up
            n_true = sum(1 for m in oks if m[1] == ev["id"] and m[2] is True)
            looked = x.world._lookups[1 if True else 0].count(ev["id"])
            if looked != n_true:
                viol.append({"case": cid, "clause": "every-other-worker-exactly-once", "sig": sig + "|lookups",
                             "detail": "the event was accepted %d times by worker 1, worker 2 looked its id up %d times | %s schedule=%s" % (n_true, looked, scn.name, x.choices)})
            allowed = tuple(range(1, n_true + 2))
        if not (oks and oks[0][2] is True):
            pass
        elif len(pushes) not in allowed:
            viol.append({"case": cid, "clause": "other-worker-pushes-like-a-local-event", "sig": sig,
                         "detail": "event accepted by worker 1 reached the subscriber of worker 2 %d times (expected exactly once) | %s schedule=%s" % (
                             len(pushes), scn.name, x.choices)})
        # (in the "early" scenario the failed announcement of the not-yet-connected worker is an unretrieved task exception by design of
        # the unchanged code; the property only speaks about connected workers)
        if x.world.loop.handler_errors and evname != "early":
            viol.append({"case": cid, "clause": "no-stray-exceptions", "sig": sig, "detail": repr(x.world.loop.handler_errors[:2])})

    if not prefix:
        explorer.explore(scn, 1 if tier == "quick" else 0, on_exec)
    else:
        explorer.explore(scn, 1, on_exec, root_prefix=list(prefix))
    return {"id": "%s|p=%s" % (cid, explorer.rle(list(prefix))), "viol": viol, "outcome": sorted(map(repr, outcomes)), "outcome_is_set": True,
            "evals": stats["n"], "states": stats["n"], "transitions": stats["n"], "nontrivial": True,
            "desc": {"scenario": "rw", "k": policy, "lo": evname, "hi": list(prefix), "tier": tier},
            "extra": {"realworker_executions": stats["n"]}, "sample": {"scenario": scn.name, "prefix": list(prefix), "executions": stats["n"]}}


def cases(tier):
    from .. import env

    ns = env.boot()
    out = list(rw_cases(tier))
    out.append(("decision", 0, 0, 0, tier))
    k = 2 if tier == "quick" else 3
    for name in SCENARIOS:
        plans, totals = cut_plans(name, k if len(SCENARIOS[name][1]) < 6 or tier == "thorough" else k, ns)
        if tier == "quick" and len(plans) > 50000:
            plans = [p for p in plans if len(p) <= 1] + [p for p in plans if len(p) == 2][::5]
        if tier == "thorough" and len(plans) > 400000:
            plans = [p for p in plans if len(p) <= 2] + [p for p in plans if len(p) == 3][::7]
        blk = 500
        for lo in range(0, len(plans), blk):
            out.append((name, k, lo, lo + blk, tier))
    return out


_PLANS = {}


def plans_for(name, k, tier, ns):
    key = (name, k, tier)
    if key not in _PLANS:
        plans, totals = cut_plans(name, k, ns)
        if tier == "quick" and len(plans) > 50000:
            plans = [p for p in plans if len(p) <= 1] + [p for p in plans if len(p) == 2][::5]
        if tier == "thorough" and len(plans) > 400000:
            plans = [p for p in plans if len(p) <= 2] + [p for p in plans if len(p) == 3][::7]
        _PLANS[key] = plans
    return _PLANS[key]


_TIER = {}


def worker_init(tier):
    _TIER["tier"] = tier


def describe(case):
    if case[0] == "rw":
        return {"scenario": "rw", "k": case[1], "lo": case[2], "hi": list(case[3]), "tier": _TIER.get("tier", "quick")}
    return {"scenario": case[0], "k": case[1], "lo": case[2], "hi": case[3], "tier": case[4]}


def judge(name, cuts, order, announced, result, errors, viol, cid):
    nworkers = SCENARIOS[name][0]
    sig = "%s|cuts=%s|order=%d" % (name, ",".join("%d@%d" % c for c in cuts) or "-", order)
    dropped_at = None
    for i, r in enumerate(result):
        own = set(announced[i])
        expect = [x for j in range(nworkers) if j != i for x in announced[j]]
        if not r["alive"]:
            # a worker that left mid-stream must have seen only intact foreign ids, each at most once
            for x in r["lookups"]:
                if x not in TABLE or x in own or r["lookups"].count(x) > 1:
                    viol.append({"case": cid, "clause": "ids-intact-once-not-own", "sig": sig, "detail": "departed worker %d looked up %r" % (i, x[:20])})
            continue
        got = r["lookups"]
        bad = [x for x in got if x not in TABLE]
        if bad:
            viol.append({"case": cid, "clause": "ids-arrive-intact", "sig": sig,
                         "detail": "worker %d looked up %d ids that were never announced (first: %r, %d hex chars) | %s" % (i, len(bad), bad[0][:24], len(bad[0]), sig)})
        if any(x in own for x in got):
            viol.append({"case": cid, "clause": "no-echo-to-sender", "sig": sig, "detail": "worker %d received its own announcement | %s" % (i, sig)})
        good = [x for x in got if x in TABLE and x not in own]
        if sorted(good) != sorted(expect):
            viol.append({"case": cid, "clause": "every-other-worker-exactly-once", "sig": sig,
                         "detail": "worker %d received %r, expected %r (each id of the other workers exactly once) | %s" % (
                             i, [x[:6] for x in good], [x[:6] for x in expect], sig)})
        if sorted(r["notified"]) != sorted(x for x in got if x in TABLE):
            viol.append({"case": cid, "clause": "local-fan-out-like-local-event", "sig": sig,
                         "detail": "worker %d fanned out %r for lookups %r | %s" % (i, [x[:6] for x in r["notified"]], [x[:6] for x in got], sig)})
        if r["client_done"]:
            viol.append({"case": cid, "clause": "client-loop-survives", "sig": sig, "detail": "worker %d's notify client loop ended | %s" % (i, sig)})
    if errors:
        viol.append({"case": cid, "clause": "no-stray-exceptions", "sig": sig, "detail": repr(errors[:2])})


def run_decision(case):
    """config.py should_run_notifier over a grid of configurations: whenever the configuration starts several gunicorn workers (they share
    the database) or asks for the notifier explicitly, the storage must be told to announce accepted events.  Nothing is required of the
    other configurations."""
    import itertools
    from .. import env

    ns = env.boot()
    cls = type(ns.Config)
    viol = []
    n = 0
    outcomes = set()
    gun = [{"bind": "127.0.0.1:6969"}, {"bind": "127.0.0.1:6969", "workers": 1}, {"bind": "127.0.0.1:6969", "workers": 2}, {"bind": "127.0.0.1:6969", "workers": 4}]
    purple = [Ellipsis, None, {}, {"host": "127.0.0.1", "port": 6969}, {"host": "127.0.0.1", "port": 6969, "workers": 1}, {"host": "127.0.0.1", "port": 6969, "workers": 3}]
    runn = [Ellipsis, None, False, True]
    for g, p, r in itertools.product(gun, purple, runn):
        cfg = cls()
        cfg.gunicorn = dict(g)
        if p is not Ellipsis:
            cfg.purple = None if p is None else dict(p)
        if r is not Ellipsis:
            cfg.run_notifier = r
        must = g.get("workers", 1) > 1 or r is True
        try:
            got = bool(cfg.should_run_notifier)
        except Exception as e:
            got = "%s: %s" % (type(e).__name__, e)
        n += 1
        outcomes.add(repr((must, got)))
        if must and got is not True:
            viol.append({"case": "decision", "clause": "announce-when-several-workers", "sig": repr((g.get("workers"), p if p is not Ellipsis else "absent", r if r is not Ellipsis else "absent")),
                         "detail": "gunicorn=%r purple=%r run_notifier=%r: several workers share the database (or the notifier is asked for) but should_run_notifier is %r, so accepted events are never announced to the other workers" % (
                             g, "absent" if p is Ellipsis else p, "absent" if r is Ellipsis else r, got)})
    return {"id": "decision", "viol": viol, "outcome": sorted(outcomes), "outcome_is_set": True, "evals": n, "states": n, "transitions": n,
            "nontrivial": True, "desc": describe(case), "extra": {"executions": n},
            "sample": {"scenario": "decision", "configurations": n, "distinct_outcomes": len(outcomes)}}


def run_case(case):
    from .. import env

    if case[0] == "rw":
        return run_rw(case, _TIER.get("tier", "quick"))
    if case[0] == "decision":
        return run_decision(case)
    name, k, lo, hi, tier = case
    ns = env.boot()
    viol = []
    cid = name
    n = 0
    outcomes = set()
    for cuts in plans_for(name, k, tier, ns)[lo:hi]:
        for order in (0, 1):
            announced, result, errors, totals = run_scenario(ns, name, cuts, order)
            judge(name, cuts, order, announced, result, errors, viol, cid)
            outcomes.add(repr([(r["lookups"], r["notified"]) for r in result]))
            n += 1
    return {"id": "%s|%d-%d" % (name, lo, hi), "viol": viol, "outcome": sorted(outcomes), "outcome_is_set": True, "evals": n, "states": n, "transitions": n,
            "nontrivial": True, "desc": describe(case), "extra": {"executions": n},
            "sample": {"scenario": name, "cut_plans": hi - lo, "executions": n, "distinct_outcomes": len(outcomes)}}


def _plan_census(tier):
    from .. import env

    ns = env.boot()
    k = 2 if tier == "quick" else 3
    out = {}
    for name in SCENARIOS:
        allp, _ = cut_plans(name, k, ns)
        run = plans_for(name, k, tier, ns)
        full = {}
        for p in allp:
            full[len(p)] = full.get(len(p), 0) + 1
        ran = {}
        for p in run:
            ran[len(p)] = ran.get(len(p), 0) + 1
        complete = max([n for n in sorted(full) if all(ran.get(m, 0) == full[m] for m in full if m <= n)] or [-1])
        out[name] = {"placements_by_cut_count": {str(n): full[n] for n in sorted(full)}, "run_by_cut_count": {str(n): ran.get(n, 0) for n in sorted(full)},
                     "cut_count_fully_covered": complete}
    return out


def coverage(tier, agg):
    census = _plan_census(tier)
    return {
        "cut_plan_census": census,
        "bound_completed": "every placement of <= %d cut points in every scenario; placements of the next size are enumerated completely where "
                           "cut_plan_census shows run == placements and as a fixed stride of the enumeration otherwise" % min(c["cut_count_fully_covered"] for c in census.values()),
        "exhaustive": all(c["placements_by_cut_count"] == c["run_by_cut_count"] for c in census.values()),
        "rule": "scenarios %s; for each, every placement of <= %d cut points over all pipes (worker->server and server->worker byte streams; a cut is "
                "a delivery boundary, all remaining bytes are coalesced) x 2 pipe service orders (cut_plan_census gives, per scenario and cut count, how many "
                "placements exist and how many were run); oracle per surviving worker: ids looked up = multiset of ids announced by the other workers, each intact and once, none "
                "of its own; every looked-up event is fanned out locally once; client loops stay alive; states/transitions = executions." % (
                    sorted(SCENARIOS), 2 if tier == "quick" else 3),
    }


def replay(desc):
    if desc["scenario"] == "rw":
        _TIER["tier"] = desc.get("tier", "quick")
        r = run_case(("rw", desc["k"], desc["lo"], tuple(desc["hi"])))
        for v in r["viol"][:20]:
            print(v["clause"], v["detail"][:500])
        return r["viol"]
    r = run_case((desc["scenario"], desc["k"], desc["lo"], desc["hi"], desc.get("tier", "quick")))
    for v in r["viol"][:20]:
        print(v["clause"], v["detail"][:500])
    return r["viol"]
