"""C17 - garbage collection removes expired and ephemeral events and nothing else.
Every subset of a universe of boundary events is built through the real EVENT path, then ONE real
GC pass runs at harness time T; the oracle relates pre-store, T and post-store.  Plus: ephemeral
delivery/queryability scenario and the periodic driver surviving an injected engine error."""
import json
from .. import seq, store, refmodel as R, fakelmdb
from ..env import CLOCK, HarnessError
from ..universe import make_event

ID = "C17"
LEVEL = "model_checking"
ASSUMPTIONS = ["real nostr_relay code imported from /repo's working tree, driven through web.start_client / the storage API; SQLite runs for real behind a same-thread connection shim (bound to real aiosqlite by C06's conformance cases); LMDB is an in-memory double (bound to the real liblmdb by C10's conformance cases), msgpack is pip's pure-python codec; asyncio runs on a controlled virtual-time loop; wall clock of nostr_relay.storage.{db,kv} replaced by the harness clock"]

TS = {"T17": 1_700_000_000, "T10": 1_000_000_000}


def universe_for(T):
    u = {}
    u["k1"] = make_event("A", 1, 100, [], "plain")
    u["k19999"] = make_event("A", 19999, 100, [], "")
    u["k20000"] = make_event("A", 20000, 100, [], "")
    u["k29999"] = make_event("B", 29999, 100, [], "")
    u["k30000"] = make_event("A", 30000, 100, [["d", "x"]], "")

    def ex(nm, val, extra=()):
        u[nm] = make_event("A", 1, 101, [["expiration", val]] + [list(x) for x in extra], nm)

    ex("exp_Tm1", str(T - 1))
    ex("exp_T", str(T))
    ex("exp_Tp1", str(T + 1))
    ex("exp_far", str(2 ** 31 - 1))
    ex("exp_5", "5")
    ex("exp_int_Tm1", T - 1)
    ex("exp_empty", "")
    ex("exp_abc", "abc")
    ex("exp_0abc", "0abc")
    ex("exp_Tm1x", "%dx" % (T - 1))
    ex("exp_Tm1_tagged", str(T - 1), extra=[["t", "a"], ["e", "bb" * 32]])
    # strings that int() or a lenient CAST would take for a number although they are not decimal timestamps
    tm1 = str(T - 1)
    ex("exp_arabic_Tm1", "".join(chr(0x660 + int(c)) for c in tm1))
    ex("exp_fullwidth_Tm1", "".join(chr(0xFF10 + int(c)) for c in tm1))
    ex("exp_superscript", "\u00b2\u2070\u00b2\u00b3")
    ex("exp_plus5", "+5")
    ex("exp_space5", " 5")
    ex("exp_5space", "5 ")
    ex("exp_neg5", "-5")
    ex("exp_5dot0", "5.0")
    ex("exp_1_000", "1_000")
    ex("exp_5e0", "5e0")
    ex("exp_0x5", "0x5")
    ex("exp_lead0_Tm1", "0" + tm1)
    u["exp_bare"] = make_event("A", 1, 101, [["expiration"]], "bare")
    u["b_exp_Tp1"] = make_event("B", 1, 101, [["expiration", str(T + 1)], ["t", "a"]], "")
    return u


CORE = ["k1", "k19999", "k20000", "k30000", "exp_Tm1", "exp_T", "exp_Tp1", "exp_5", "exp_abc", "exp_Tm1_tagged", "exp_empty"]


def universes():
    out = {}
    for tn, T in TS.items():
        out["U17@" + tn] = universe_for(T)
    out["U17core"] = {k: v for k, v in universe_for(TS["T17"]).items() if k in CORE}
    return out


_U = {}


def U(tn):
    if tn not in _U:
        _U[tn] = universe_for(TS[tn])
    return _U[tn]


BLOCK = 16


def subsets_for(tier, tn):
    """quick: all subsets of the 10-event core. thorough: those plus every subset of size <= 3 of the full universe
    plus the full universe (collector effects are per-event; pairs/triples cover interactions such as join duplicates)."""
    import itertools

    out = []
    seen = set()

    def add(ms):
        ms = tuple(ms)
        if ms not in seen:
            seen.add(ms)
            out.append(ms)

    n = len(CORE)
    for mask in range(2 ** n):
        add([CORE[i] for i in range(n) if mask >> i & 1])
    names = list(U(tn))
    for k in (1, 2):
        for c in itertools.combinations(names, k):
            add(c)
    add(names)
    if tier == "thorough":
        for k in range(0, 4):
            for c in itertools.combinations(names, k):
                add(c)
        add(names)
    return out


def cases(tier):
    out = []
    for backend in ("sql", "kv"):
        for tn in TS:
            subs = subsets_for(tier, tn)
            for lo in range(0, len(subs), BLOCK):
                out.append(("subsets", backend, tn, tuple(subs[lo:lo + BLOCK])))
        out.append(("ephemeral", backend))
        out.append(("periodic", backend))
        out.append(("twopass", backend))
    return out


def describe(case):
    return {"case": list(case)}


def must_remove(e, T):
    if R.is_ephemeral(e["kind"]):
        return True
    k, val = R.expiration(e)
    return k == "ok" and val < T


def must_keep(e, T):
    if R.is_ephemeral(e["kind"]):
        return False
    k, val = R.expiration(e)
    if k == "none" or k == "malformed":
        return True
    return val > T


def gc_pass(sess, T):
    w = sess.w
    old = CLOCK.now
    CLOCK.now = float(T) + 0.5  # int(time()) == T
    try:
        if w.backend == "sql":
            gc = w.ns.db.QueryGarbageCollector(w.storage)
        else:
            gc = w.ns.kv.KVGarbageCollector(w.storage)
        try:
            w.call(gc.run_once())
        except Exception:
            pass  # the periodic driver swallows exceptions: a pass that dies simply collects nothing (judged by the oracle below)
        w.run()
    finally:
        CLOCK.now = old


def orphan_rows(backend, dump):
    if backend == "sql":
        ids = {r[0] for r in dump[0]}
        return [r for r in dump[1] if r[0] not in ids]
    from . import c10

    return c10.invariant(dump)


def run_subsets(case):
    _, backend, tn, subs = case
    T = TS[tn]
    uni = U(tn)
    sess = seq.session(backend)
    viol = []
    states = set()
    trans = 0
    nontrivial = 0
    for members in subs:
        sess.reset()
        for nm in members:
            sess.submit(uni[nm])
        pre = sess.dump()
        P = store.decode_store(backend, pre)
        gc_pass(sess, T)
        post = sess.dump()
        Q = store.decode_store(backend, post)
        trans += len(members) + 1
        states.add(store.sdigest(pre))
        states.add(store.sdigest(post))
        if P != Q:
            nontrivial += 1
        cid = ",".join(members)
        byid = {uni[nm]["id"]: nm for nm in members}
        for i, e in P.items():
            nm = byid.get(i, i[:8])
            if i in Q and must_remove(e, T):
                viol.append({"case": "%s|%s" % (backend, tn), "clause": "expired-or-ephemeral-removed", "sig": "%s@%s" % (nm, cid),
                             "detail": "%s (kind %d, expiration %r) survives the GC pass at T=%d | store={%s}" % (
                                 nm, e["kind"], R.expiration(e), T, cid)})
            if i not in Q and must_keep(e, T):
                viol.append({"case": "%s|%s" % (backend, tn), "clause": "nothing-else-removed", "sig": "%s@%s" % (nm, cid),
                             "detail": "%s (kind %d, expiration %r) was removed by the GC pass at T=%d | store={%s}" % (
                                 nm, e["kind"], R.expiration(e), T, cid)})
        for i in Q:
            if i not in P:
                viol.append({"case": "%s|%s" % (backend, tn), "clause": "gc-adds-nothing", "sig": "%s@%s" % (i[:8], cid), "detail": "GC created %s" % i})
        orph = orphan_rows(backend, post)
        if orph:
            viol.append({"case": "%s|%s" % (backend, tn), "clause": "no-leftover-index-entries", "sig": "%d@%s" % (len(orph), cid),
                         "detail": "after the pass %d tag rows / index entries refer to removed events: %r | store={%s}" % (
                             len(orph), orph[:2], cid)})
    return viol, states, trans, nontrivial


def run_ephemeral(case):
    _, backend = case
    sess = seq.session(backend)
    uni = U("T17")
    viol = []
    sess.reset()
    for nm in ("k20000", "k29999", "k19999"):
        r = sess.submit(uni[nm])
        eid = uni[nm]["id"]
        ok = r["ok"] and r["ok"][0][2] is True
        pushed = [p.get("id") for p in r["pushed"]]
        if not ok or pushed.count(eid) != 1:
            viol.append({"clause": "ephemeral-delivered-live", "sig": nm, "detail": "%s ok=%r pushed=%r" % (nm, r["ok"], pushed)})
    # an expired event too; every one of them is fetched over HTTP once BEFORE the pass (a response cache must not outlive the event)
    sess.submit(uni["exp_Tm1"])
    for nm in ("k20000", "k29999", "k19999", "exp_Tm1"):
        sess.w.http_get(uni[nm]["id"])
    gc_pass(sess, TS["T17"])
    for nm in ("k20000", "k29999", "exp_Tm1"):
        body = sess.w.http_get(uni[nm]["id"])
        if not isinstance(body, tuple):
            viol.append({"clause": "ephemeral-not-queryable-after-pass", "sig": nm + ":http", "detail": "%s is still served by /e/<id> after a GC pass" % nm})
    if isinstance(sess.w.http_get(uni["k19999"]["id"]), tuple):
        viol.append({"clause": "nothing-else-removed", "sig": "k19999-http", "detail": "kind 19999 is not served by /e/<id> after the pass"})
    for nm in ("k20000", "k29999"):
        eid = uni[nm]["id"]
        ids, eose, notice, closed = sess.query_ids([{"ids": [eid]}])
        got = sess.w.call(sess.w.storage.get_event(eid))
        if eid in ids or got is not None:
            viol.append({"clause": "ephemeral-not-queryable-after-pass", "sig": nm, "detail": "%s still served after a GC pass" % nm})
        ids, eose, notice, closed = sess.query_ids([{"kinds": [uni[nm]["kind"]]}])
        if eid in ids:
            viol.append({"clause": "ephemeral-not-queryable-after-pass", "sig": nm + ":kinds", "detail": "%s still served by kinds query" % nm})
    ids, _, _, _ = sess.query_ids([{"ids": [uni["k19999"]["id"]]}])
    if uni["k19999"]["id"] not in ids:
        viol.append({"clause": "nothing-else-removed", "sig": "k19999-query", "detail": "kind 19999 not served after the pass"})
    return viol, set(), 6, 1


def run_periodic(case):
    """the periodic driver: the first pass hits an injected engine error, the second still collects"""
    from ..harness import World

    _, backend = case
    seq.close_all()
    T = TS["T17"]
    uni = U("T17")
    viol = []
    w = World(backend, config={"garbage_collector": {"collect_interval": 300}}, storage_options={"stats_interval": 1e15},
              message_timeout=1e300)
    try:
        c = w.connect("w")
        w.run()
        for nm in ("exp_Tm1", "k1"):
            w.send("w", ["EVENT", uni[nm]])
        before = store.decode_store(backend, w.dump())
        CLOCK.now = float(T) + 0.5
        w.storage.start_garbage_collector()
        w.run(horizon=10)
        # arm an engine failure for the first pass
        if backend == "sql":
            w.sql.arm("error", 1)
        else:
            w.env.fault = fakelmdb.FaultPlan("error", 1)

            # the kv collector only reads inside its own txn; make the first read-side cursor fail instead
            orig_begin = w.env.begin
            state = {"n": 0}

            def failing_begin(*a, **k):
                if not k.get("write") and not (a and a[0]):
                    state["n"] += 1
                    if state["n"] == 1:
                        raise fakelmdb.Error("injected engine failure at begin")
                return orig_begin(*a, **k)

            w.env.begin = failing_begin
        w.run(horizon=301)  # first pass (fails)
        mid = store.decode_store(backend, w.dump())
        if backend == "sql":
            w.sql.disarm()
        else:
            w.env.fault = None
        # an expired event that arrives only now (a driver that also ran at start has nothing left from before): the passes that follow
        # the failed one must still collect it
        w.send("w", ["EVENT", uni["exp_Tm1_tagged"]])
        late_id = uni["exp_Tm1_tagged"]["id"]
        if late_id not in store.decode_store(backend, w.dump()):
            raise HarnessError("periodic scenario: the late expiring event was not stored")
        w.run(horizon=301)  # second pass
        w.run(horizon=301)  # third pass
        after = store.decode_store(backend, w.dump())
        if late_id in after:
            viol.append({"clause": "periodic-survives-error", "sig": backend + ":late",
                         "detail": "an expired event stored after a failed pass is still there two collect_intervals later: the periodic driver stopped"})
        exp_id = uni["exp_Tm1"]["id"]
        if exp_id not in before:
            raise HarnessError("periodic scenario: expiring event was not stored")
        if exp_id in after:
            viol.append({"clause": "periodic-survives-error", "sig": backend,
                         "detail": "after a failed first pass the second pass (one collect_interval later) did not collect the expired event; "
                                   "mid=%d after=%d" % (len(mid), len(after))})
        if uni["k1"]["id"] not in after:
            viol.append({"clause": "nothing-else-removed", "sig": backend + ":periodic", "detail": "plain event removed by periodic GC"})
    finally:
        CLOCK.now = 1_700_000_000.0
        w.close()
    return viol, set(), 3, 1


def run_twopass(case):
    """ONE collector object runs several passes (as the periodic driver does); events that arrive between two passes - among them
    events that are already expired on arrival - are judged by the pass that follows"""
    import itertools

    _, backend = case
    sess = seq.session(backend)
    w = sess.w
    T1, T2, T3 = 1_700_000_000, 1_700_000_300, 1_700_000_600
    viol = []
    n = 0
    arrivals = {
        "expired_long_ago": make_event("A", 1, 200, [["expiration", str(T1 - 1000)]], "a"),
        "expired_just_before_T1": make_event("A", 1, 201, [["expiration", str(T1 - 1)]], "b"),
        "expires_between": make_event("A", 1, 202, [["expiration", str(T1 + 100)]], "c"),
        "expires_after_T3": make_event("A", 1, 203, [["expiration", str(T3 + 100)]], "d"),
        "short_digits": make_event("A", 1, 204, [["expiration", "7"]], "e"),
        "no_expiration": make_event("A", 1, 205, [], "f"),
        "ephemeral": make_event("A", 20005, 206, [], "g"),
    }
    names = list(arrivals)
    for first in ([], ["expired_long_ago"], ["no_expiration"]):
        for between in itertools.chain(*[itertools.combinations(names, r) for r in (1, 2)]):
            sess.reset()
            gc = w.ns.db.QueryGarbageCollector(w.storage) if backend == "sql" else w.ns.kv.KVGarbageCollector(w.storage)

            def one_pass(T):
                old = CLOCK.now
                CLOCK.now = float(T) + 0.5
                try:
                    try:
                        w.call(gc.run_once())
                    except Exception:
                        pass
                    w.run()
                finally:
                    CLOCK.now = old

            for nm in first:
                sess.submit(arrivals[nm])
            one_pass(T1)
            for nm in between:
                sess.submit(arrivals[nm])
            pre = store.decode_store(backend, sess.dump())
            one_pass(T2)
            post = store.decode_store(backend, sess.dump())
            n += 1
            sig = "first=%s|between=%s" % (",".join(first) or "-", ",".join(between))
            for nm in list(first) + list(between):
                e = arrivals[nm]
                if e["id"] in post and must_remove(e, T2):
                    viol.append({"case": "%s|twopass" % backend, "clause": "expired-or-ephemeral-removed", "sig": nm + "|" + sig,
                                 "detail": "%s survives the second pass (T=%d) of the same collector object | %s" % (nm, T2, sig)})
                if e["id"] in pre and e["id"] not in post and must_keep(e, T2):
                    viol.append({"case": "%s|twopass" % backend, "clause": "nothing-else-removed", "sig": nm + "|" + sig,
                                 "detail": "%s was removed by the second pass (T=%d) | %s" % (nm, T2, sig)})
    return viol, set(), n, 1


def run_case(case):
    kind = case[0]
    if kind == "subsets":
        viol, states, trans, nt = run_subsets(case)
        cid = "%s|%s|block=%s" % (case[1], case[2], store.sdigest(case[3]))
    elif kind == "twopass":
        viol, states, trans, nt = run_twopass(case)
        cid = "%s|twopass" % case[1]
    elif kind == "ephemeral":
        viol, states, trans, nt = run_ephemeral(case)
        cid = "%s|ephemeral" % case[1]
    else:
        viol, states, trans, nt = run_periodic(case)
        cid = "%s|periodic" % case[1]
    for v in viol:
        v.setdefault("case", cid)
    return {"id": cid, "viol": viol, "outcome": sorted(states), "outcome_is_set": True, "states": max(1, len(states)),
            "transitions": trans, "evals": len(case[3]) if kind == "subsets" else 1, "nontrivial": nt > 0,
            "desc": describe(case), "sample": {"case": cid, "states": len(states), "transitions": trans}}


def coverage(tier, agg):
    return {
        "rule": "subsets of the boundary universe (kinds 1/19999/20000/29999/30000; expiration T-1, T, T+1, 2^31-1, '5', JSON integer T-1, "
                "'', 'abc', '0abc', '<T-1>x', bare tag, expiring event with extra tags, foreign author; strings a lenient parser takes for numbers: "
                "Arabic-Indic / full-width / superscript digits, '+5', ' 5', '5 ', '-5', '5.0', '1_000', '5e0', '0x5', leading zero) are built through the real websocket "
                "EVENT path, then one real collector pass runs at T in {1700000000, 1000000000 (digit-count boundary)}; oracle: ephemeral and "
                "well-formed-expired removed, everything else kept, expiration == T free, no tag row / index key left for removed events; plus "
                "ephemeral live-delivery/non-queryability scenario and periodic driver with an injected engine error in its first pass. "
                "quick: all %d subsets of an %d-event core, every subset of size <= 2 of the %d-event universe and the full universe; thorough: also "
                "every subset of size 3." % (2 ** len(CORE), len(CORE), len(U("T17"))),
        "T_values": TS,
        "backends": ["sql", "kv"],
    }


def replay(desc):
    def tup(x):
        return tuple(tup(y) for y in x) if isinstance(x, list) else x

    case = tup(desc["case"])
    r = run_case(case)
    for v in r["viol"]:
        print(v["clause"], v["detail"])
    return r["viol"]
