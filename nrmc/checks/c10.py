"""C10 - every LMDB index entry has its record and every record all its index entries.
State invariant evaluated on the complete keyspace of the LMDB double in every state of a STORE BFS
(universes of C06/C08/C09/C17 plus a tag-shape universe), including states reached through
garbage collection and delete_event transitions. Expected keys are computed by this file's own
encoder (not Index.convert), so a wrong convert()/to_key() is visible."""
import hashlib
import pip._vendor.msgpack as msgpack

from .. import store, seq
from ..universe import make_event

ID = "C10"
LEVEL = "model_checking"
ASSUMPTIONS = ["LMDB double (DESIGN.md section 6 and 11); its transaction / cursor semantics are compared with the real liblmdb 0.9.31 (ctypes) on all "
               "operation sequences up to depth 3 (quick) / 4 (thorough) in this very check - reported as skipped, never as passed, if the "
               "library is absent", "pure-python msgpack codec from pip"]

MAX_TAG_VALUE = 256  # mirrors TagIndex.max_value_size (documented layout: long values keyed by sha256)


def be4(n):
    return int(n).to_bytes(4, "big")


def expected_keys(rec):
    """rec: decoded primary record (tags as lists) -> (required, optional) sets of secondary keys under the layout the
    comment at the top of kv.py documents.  String tag values are required; scalar non-string values (numbers, booleans,
    null) and nested values may be indexed under their str() or not at all, but consistently."""
    _, eid, created_at, kind, pubkey, content, tags, sig = rec
    suffix = b"\x00" + be4(created_at) + b"\x00" + eid
    keys = set()
    opt = set()
    keys.add(b"\x01" + be4(created_at) + suffix)
    keys.add(b"\x02" + be4(kind) + suffix)
    keys.add(b"\x03" + pubkey + suffix)
    keys.add(b"\x04" + pubkey + b"\x00" + be4(kind) + suffix)
    for t in tags:
        # NIP-26: a delegated event may additionally be indexed under its delegator as author (optional, but consistent)
        if len(t) >= 2 and t[0] == "delegation" and isinstance(t[1], str) and len(t[1]) == 64:
            try:
                d = bytes.fromhex(t[1])
                opt.add(b"\x03" + d + suffix)
                opt.add(b"\x04" + d + b"\x00" + be4(kind) + suffix)
            except ValueError:
                pass
    for t in tags:
        if len(t) >= 2 and isinstance(t[0], str):
            val = str(t[1]).encode("utf8", "surrogatepass")
            if len(val) > MAX_TAG_VALUE:
                val = hashlib.sha256(val).digest()
            k = b"\x09" + t[0].encode("utf8", "surrogatepass") + b"\x00" + val + suffix
            indexable = len(t[0]) == 1 or t[0] in ("expiration", "delegation")
            # required: what the property calls indexable, with a string value; anything else the event really carries may be
            # indexed too (an implementation indexing more tags is still coherent) - but never a value the event does not have
            (keys if (indexable and isinstance(t[1], str)) else opt).add(k)
    return keys, opt


def invariant(dump):
    v = []
    prim = {}
    second = set()
    sentinels = 0
    for k, val in dump:
        if k == b"\xee":
            sentinels += 1
        elif k[:1] == b"\x00" and len(k) == 33:
            prim[k[1:]] = msgpack.unpackb(val, use_list=True)
        elif k[:1] in (b"\x01", b"\x02", b"\x03", b"\x04", b"\x09") and len(k) >= 39:
            second.add(k)
        else:
            v.append({"clause": "unknown-key", "sig": k.hex()[:24], "detail": "key %r fits no index layout" % k})
    if sentinels != 1:
        v.append({"clause": "sentinel", "sig": str(sentinels), "detail": "%d sentinel keys" % sentinels})
    want = set()
    optional = set()
    for eid, rec in prim.items():
        if rec[1] != eid:
            v.append({"clause": "primary-id", "sig": eid.hex()[:8], "detail": "primary key and record id differ"})
        try:
            ek, eo = expected_keys(rec)
            optional |= eo
        except Exception as e:
            v.append({"clause": "unindexable-record", "sig": eid.hex()[:8], "detail": "record %s cannot be keyed: %r" % (eid.hex()[:8], e)})
            continue
        want |= ek
    for k in sorted(want - second):
        v.append({"clause": "record-without-entry", "sig": k[:1].hex() + k[-32:].hex()[:8],
                  "detail": "record %s lacks index entry %r" % (k[-32:].hex()[:8], k[:-32])})
    for k in sorted(second - want - optional):
        clause = "dangling-entry" if k[-32:] not in prim else "entry-under-wrong-value"
        v.append({"clause": clause, "sig": k[:1].hex() + k[-32:].hex()[:8],
                  "detail": "index entry %r -> %s has no matching record attribute" % (k[:-32], k[-32:].hex()[:8])})
    return v


def universes():
    from . import c06, c08, c09, c17

    U = {}
    U.update(c09.universes())
    U.update(c08.universes())
    u6 = c06.universes()
    U["U6"] = u6["U6"]
    U["U17"] = c17.universes()["U17core"]
    t = {}
    t["dup_tags"] = make_event("A", 1, 50, [["e", "x"], ["e", "x"], ["e", "y"]], "")
    t["nonstr"] = make_event("A", 1, 51, [["t", 5], ["t", True], ["t", None], ["t", ["n"]], ["t", 1.5]], "")
    t["empty_val"] = make_event("A", 1, 52, [["t", ""], ["d", ""]], "")
    t["multibyte_name"] = make_event("A", 1, 53, [["é", "v"], ["日本", "w"], ["\U0001f600", "z"]], "")
    t["nul_val"] = make_event("A", 1, 54, [["t", "a\x00b"], ["t", "a"], ["t", "a\x00"]], "")
    t["exp_deleg_like"] = make_event("A", 1, 55, [["expiration", "100"], ["delegation", "x", "y", "z"], ["expiration"]], "")
    t["three_elem"] = make_event("A", 1, 56, [["e", "id1", "wss://r"], ["p", "pk", "", "extra"]], "")
    t["long_val"] = make_event("A", 1, 57, [["t", "x" * 300], ["t", "x" * 256], ["t", "x" * 257]], "")
    t["repl"] = make_event("A", 10000, 58, [["t", "a"]], "")
    t["repl_new"] = make_event("A", 10000, 59, [["t", "b"]], "")
    t["del_all"] = make_event("A", 5, 60, [["e", t["dup_tags"]["id"]], ["e", t["nonstr"]["id"]], ["e", t["nul_val"]["id"]]], "")
    from ..universe import delegation_tag
    t["delegated"] = make_event("B", 1, 61, [delegation_tag("A", "B", "kind=1"), ["e", "x"]], "delegated")
    t["del_by_delegator"] = make_event("A", 5, 70, [["e", t["delegated"]["id"]]], "")
    t["same_ts_1"] = make_event("A", 1, 50, [["e", "x"]], "same ts 1")
    t["same_ts_2"] = make_event("B", 1, 50, [["e", "x"]], "same ts 2")
    # created_at 0 ("accepted or refused": the event library re-dates a falsy created_at; whatever is stored must be keyed coherently
    # and must go away completely when deleted or superseded)
    # values of different JSON types that compare (and hash) equal in Python: 1 == True == 1.0, 0 == False == 0.0
    t["num_1"] = make_event("A", 1, 62, [["t", 1]], "")
    t["bool_true"] = make_event("A", 1, 63, [["t", True]], "")
    t["float_1"] = make_event("A", 1, 64, [["t", 1.0], ["t", 0], ["t", False]], "")
    t["epoch"] = make_event("A", 1, 0, [["t", "z"]], "created at the epoch")
    t["epoch_repl"] = make_event("A", 10000, 0, [["t", "z"]], "replaceable, created at the epoch")
    t["del_epoch"] = make_event("A", 5, 80, [["e", t["epoch"]["id"]]], "")
    U["U10"] = t
    return U


class GCSession:
    """wraps a seq.Session: two extra pseudo-events drive garbage collection and delete_event."""


def oracle(backend, uni, sess):
    def on_transition(hist, pre, nm, r, post):
        return []

    return on_transition


def state_oracle(backend, uni, sess):
    def on_state(hist, dump):
        return invariant(dump)

    return on_state


CHECK = store.StoreCheck(
    ID, universes, oracle, state_oracle=state_oracle, backends=("kv",),
    depths={"quick": {"U9a": 3, "U9b": 2, "U8": 3, "U6": 2, "U17": 2, "U10": 3},
            "thorough": {"U9a": 4, "U9b": 3, "U8": 4, "U6": 3, "U17": 3, "U10": 4}},
    plen={"quick": 1, "thorough": 1},
    linear={"quick": {"U10": 2, "U8": 2, "U9a": 2}, "thorough": {"U10": 3, "U8": 3, "U9a": 3, "U9b": 2, "U6": 2}},
    rule="state invariant over the full forward walk of the LMDB double's keyspace after every transition: keys partition into primary "
         "0x00|id, secondary prefix|value|00|ts|00|id and exactly one sentinel 0xee; every record has each expected key (created_at, kind, "
         "author, author+kind, every indexable tag) and every secondary key is one of its record's expected keys. Universes: those of "
         "C06, C08, C09, C17 plus U10 (duplicate tags, non-string/empty values, multi-byte names, NUL in values, expiration/delegation, "
         "3-element tags, 256/257/300-byte values, replaceable pair, deletion of several, equal timestamps)",
)
CHECK.export(globals())

_base_run_case = CHECK.run_case
_base_cases = CHECK.cases


def cases(tier):
    """STORE shards plus the binding of the LMDB double to the real liblmdb (differential run of all short operation sequences)"""
    from .. import lmdbconf

    out = list(_base_cases(tier))
    for i in range(len(lmdbconf.OPS)):
        out.append(("conformance", "liblmdb", [i], 3 if tier == "quick" else 4))
    # histories interrupted by injected failures: every mutation index of every transition of short histories gets an engine
    # error and a kill; the keyspace must be coherent afterwards (the before-or-after question itself is C07's)
    for un in ("U10", "U8", "U9a"):
        names = list(CHECK.U()[un])
        for first in names:
            out.append(("faults", un, [first], 2))
    return out


def describe(case):
    backend, un, p, d = case
    return {"backend": backend, "universe": un, "prefix": p, "depth": d}


def run_conformance(case):
    from .. import lmdbconf

    _, _, (i,), depth = case
    r = lmdbconf.run(depth, first_op=i)
    viol = []
    if r["mismatches"]:
        viol.append({"case": "conformance", "clause": "double-agrees-with-liblmdb", "sig": "first_op=%d" % i,
                     "detail": "the LMDB double disagrees with the real library on %d of %d operation sequences; first: %r" % (
                         r["mismatches"], r["sequences"], r.get("first_mismatch"))})
    key = "liblmdb_conformance_skipped" if r["skipped"] else "liblmdb_conformance_sequences"
    return {"id": "conformance|%d" % i, "viol": viol, "outcome": None, "evals": max(1, r["sequences"]), "states": 0, "transitions": 0,
            "nontrivial": not r["skipped"], "desc": describe(case), "extra": {key: max(1, r["sequences"])},
            "sample": {"case": "conformance", "first_op": repr(lmdbconf.OPS[i])[:40], "sequences": r["sequences"], "library": r["library"]}}


def run_faults(case):
    from . import c07
    from .. import fakelmdb

    _, un, (first,), depth = case
    uni = CHECK.U()[un]
    sess = seq.session("kv")
    pairs = {}

    def on_transition(hist, pre, nm, r, post):
        pairs.setdefault((store.sdigest(pre), nm), (pre, nm))
        return []

    store.bfs(sess, uni, [first], depth, on_transition)
    seq.close_all()
    viol = []
    n = 0
    for key in sorted(pairs):
        pre, nm = pairs[key]
        w = c07.fresh_world("kv", pre)
        try:
            c0 = c07.mutation_count(w)
            c07.operate(w, ("event", uni[nm]))
            nmut = c07.mutation_count(w) - c0
        finally:
            w.close()
        for mode in ("error", "crash"):
            for k in range(1, nmut + 1):
                w = c07.fresh_world("kv", pre)
                try:
                    c07.arm(w, mode, k)
                    try:
                        c07.operate(w, ("event", uni[nm]))
                    except fakelmdb.Crash:
                        pass
                    finally:
                        c07.disarm(w)
                    n += 1
                    for v in invariant(w.dump()):
                        viol.append({"case": "kv|U=%s|faults" % un, "clause": v["clause"], "sig": "%s@%s|%s@%d/%d" % (v["sig"], key[0], mode, k, nmut),
                                     "detail": v["detail"] + " | after an injected %s at mutation %d/%d of %s from state %s (shard first=%s)" % (
                                         mode, k, nmut, nm, key[0], first)})
                finally:
                    w.close(remove=True)
    return {"id": "faults|%s|%s" % (un, first), "viol": viol, "outcome": None, "evals": max(n, 1), "states": n, "transitions": n, "nontrivial": n > 0,
            "desc": describe(case), "extra": {"fault_interrupted_histories": n},
            "sample": {"case": "faults", "universe": un, "first": first, "faulted_executions": n}}


def run_case(case):
    """after the BFS shard: additional GC / delete_event transitions from every member's singleton and pair stores"""
    if case[0] == "conformance":
        return run_conformance(case)
    if case[0] == "faults":
        return run_faults(case)
    r = _base_run_case(case)
    backend, un, prefix, depth = case
    if prefix and prefix[0] == "@linear":
        return r
    uni = CHECK.U()[un]
    sess = seq.session(backend)
    w = sess.w
    extra = 0
    names = list(uni)
    from ..env import CLOCK

    for second in names:
        sess.reset()
        for nm in prefix + [second]:
            sess.submit(uni[nm])
        base = sess.dump()
        # delete_event of each stored id
        for eid in sess.stored_ids():
            sess.restore(base)
            w.call(w.storage.delete_event(eid))
            w.run()
            extra += 1
            for v in invariant(sess.dump()):
                r["viol"].append({"case": "%s|U=%s" % (backend, un), "clause": v["clause"],
                                  "sig": "%s@%s+delete_event(%s)" % (v["sig"], ",".join(prefix + [second]), eid[:8]),
                                  "detail": v["detail"] + " | history=%s then delete_event(%s)" % (",".join(prefix + [second]), eid[:8])})
        # one garbage-collection pass far in the future (everything with an expiration expires)
        sess.restore(base)
        old = CLOCK.now
        CLOCK.now = 2_000_000_000.0
        try:
            gc = w.ns.kv.KVGarbageCollector(w.storage)
            w.call(gc.run_once())
            w.run()
        finally:
            CLOCK.now = old
        extra += 1
        for v in invariant(sess.dump()):
            r["viol"].append({"case": "%s|U=%s" % (backend, un), "clause": v["clause"],
                              "sig": "%s@%s+gc" % (v["sig"], ",".join(prefix + [second])),
                              "detail": v["detail"] + " | history=%s then GC pass" % ",".join(prefix + [second])})
    r["transitions"] += extra
    r["evals"] += extra
    r["extra"]["gc_or_delete_transitions"] = extra
    return r
