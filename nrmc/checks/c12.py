"""C12 - a limit returns the newest matching events, never more than allowed.
QUERY table with Config.max_limit = 3 (import-bound, hence its own worker processes)."""
import json
import itertools
from .. import seq, qtable as Q
from ..universe import PK

ID = "C12"
LEVEL = "model_checking"
MAX_LIMIT = 3
ASSUMPTIONS = ["real nostr_relay code imported from /repo's working tree, driven through web.start_client / the storage API; SQLite runs for real behind a same-thread connection shim (bound to real aiosqlite by C06's conformance cases); LMDB is an in-memory double (bound to the real liblmdb by C10's conformance cases), msgpack is pip's pure-python codec; asyncio runs on a controlled virtual-time loop; Config.max_limit = 3 set before nostr_relay.storage is imported"]
CHUNK = 1

LIMITS = [None, 0, 1, 2, 3, 4, 10]


def base_filters(tier):
    u = Q.U1()
    A, B = PK["A"], PK["B"]
    ids = [u[n]["id"] for n in ("a_k1_t10_ea", "a_k1_t20_eab", "b_k1_t20_eb", "a_k1_t20_idff", "a_k2_t30_dup")]
    out = [
        {"kinds": [1]}, {"kinds": [1, 2]}, {"kinds": [2, 256, 255]}, {"authors": [A]}, {"authors": [A, B]}, {"authors": [B]},
        {"#e": ["a"]}, {"#e": ["a", "ab"]}, {"#e": ["ab", "b", "a"]}, {"ids": ids}, {"ids": ids[:2]},
        {"since": 10}, {"until": 30}, {"since": 11, "until": Q.T9},
        {"authors": [A], "kinds": [1]}, {"authors": [A, B], "kinds": [1, 2]}, {"kinds": [1], "#e": ["a", "ab"]},
        {"authors": [A], "#e": ["a"]}, {"kinds": [1], "since": 20}, {"kinds": [1], "until": 20}, {"authors": [A, B], "since": 20},
        {"#e": ["a"], "#p": [B]}, {"kinds": [1, 2], "authors": [A], "#e": ["a", "ab"]},
        # the serving index yields a superset that the residual matcher narrows down (ids + window, two tag names)
        {"ids": ids, "until": 20}, {"ids": ids, "since": 25}, {"#e": ["a", "ab"], "#t": ["it's"]}, {"#e": ["a"], "#p": [A, B]},
    ]
    if tier == "thorough":
        out += [{"kinds": [1], "authors": [B], "since": 20}, {"#t": ["it's", "é"]}, {"#p": [A, B]}, {"kinds": [255, 256, 1], "until": Q.T9 + 1},
                {"authors": [A, B, PK["C"]]}, {"ids": ids, "kinds": [1]}, {"#e": ["abc", "ab", "a", "b"]}]
    return out


_F = {}


def filters_for(tier):
    if tier in _F:
        return _F[tier]
    base = base_filters(tier)
    out = []
    for f in base:
        for lim in LIMITS:
            g = dict(f)
            if lim is not None:
                g["limit"] = lim
            out.append([g])
    # several filters per REQ with different limits
    pairs = [(0, 3), (0, 6), (3, 6), (1, 4), (9, 0), (11, 14), (5, 7)]
    for i, j in pairs:
        for l1, l2 in itertools.product([None, 1, 2, 3, 10], repeat=2):
            a, b = dict(base[i]), dict(base[j])
            if l1 is not None:
                a["limit"] = l1
            if l2 is not None:
                b["limit"] = l2
            out.append([a, b])
    for i in (0, 3, 6, 11):
        for l1, l2 in ((1, 10), (10, 1), (1, 2), (2, None), (0, 3)):
            a, b = dict(base[i]), dict(base[i])
            if l1 is not None:
                a["limit"] = l1
            if l2 is not None:
                b["limit"] = l2
            out.append([a, b])
    for l in ([1, 1, 1], [2, 1, 3], [None, 1, 10], [3, 3, 3]):
        fl = []
        for idx, lim in zip((0, 3, 6), l):
            g = dict(base[idx])
            if lim is not None:
                g["limit"] = lim
            fl.append(g)
        out.append(fl)
    _F[tier] = out
    return out


def cases(tier):
    names = Q.members(tier)
    if tier == "quick":
        names = list(Q.U1())[:7]
    return [(backend, S, tier) for backend in ("sql", "kv") for S in Q.subsets(names)] + SCHEDMODE.cases(tier) + [("midstream", "sql", (), tier)]


def describe(case):
    if case[0] == "midstream":
        return {"mode": "midstream", "backend": "sql"}
    if case[0] == "sched":
        return SCHEDMODE.describe(case)
    return {"backend": case[0], "store": list(case[1]), "tier": case[2]}


def eff(f):
    lim = f.get("limit")
    return MAX_LIMIT if lim is None else min(lim, MAX_LIMIT)


def judge(store_events, filters, evs, eose, closed):
    v = []
    if closed or eose != 1:
        v.append(("answered-with-eose", "eose=%d" % eose, "eose=%d closed=%s" % (eose, closed)))
        return v
    stripped = [{k: x for k, x in f.items() if k != "limit"} for f in filters]
    by_id = {e["id"]: e for e in store_events}
    sent = [e["id"] for e in evs]
    for fi, f in enumerate(stripped):
        loose = [e for e in store_events if Q.loose_matches(f, e)]
        strict = [e for e in store_events if Q.strict_matches(f, e)]
        only_this = lambda e: sum(1 for g in stripped if Q.loose_matches(g, e)) == 1  # noqa: E731
        attributable = [i for i in sent if i in by_id and Q.loose_matches(f, by_id[i]) and only_this(by_id[i])]
        n_allowed = eff(filters[fi])
        # every filter gets its own share: at least min(limit, number of strict matches) of its matches are sent (whichever filter
        # of the REQ they are sent for)
        sent_matching = len({i for i in sent if i in by_id and Q.loose_matches(f, by_id[i])})
        if sent_matching < min(n_allowed, len(strict)):
            v.append(("limit-does-not-starve-a-filter", "f%d:%d<%d" % (fi, sent_matching, min(n_allowed, len(strict))),
                      "filter %d has %d strict matches and limit %d but only %d of its matches were sent" % (fi, len(strict), n_allowed, sent_matching)))
        if len(attributable) > n_allowed:
            v.append(("at-most-limit", "f%d:%d>%d" % (fi, len(attributable), n_allowed),
                      "%d events attributable only to filter %d were sent, limit allows %d" % (len(attributable), fi, n_allowed)))
        if len(filters) > 1:
            # several filters: an event sent that matches ONLY this filter was chosen by this filter's limit, so every match of this
            # filter that is newer than it must have been sent too (it may also have been sent for another filter)
            sent_set = set(sent)
            only = [by_id[i] for i in attributable]
            if only:
                oldest_only = min(e["created_at"] for e in only)
                for e in strict:
                    if e["id"] not in sent_set and e["created_at"] > oldest_only:
                        v.append(("newest-first", "f%d:left:%s" % (fi, e["id"][:8]),
                                  "filter %d: left-out match %s (t=%d) is newer than an event sent only for this filter (t=%d)" % (
                                      fi, e["id"][:8], e["created_at"], oldest_only)))
        if len(filters) == 1:
            sent_set = set(sent)
            sent_ts = [by_id[i]["created_at"] for i in sent if i in by_id]
            if sent_ts:
                oldest_sent = min(sent_ts)
                for e in strict:
                    if e["id"] not in sent_set and e["created_at"] > oldest_sent:
                        v.append(("newest-first", "left:%s" % e["id"][:8],
                                  "left-out match %s (t=%d) is newer than a sent one (t=%d)" % (e["id"][:8], e["created_at"], oldest_sent)))
            if len(loose) <= n_allowed:
                for e in strict:
                    if e["id"] not in sent_set:
                        v.append(("large-limit-truncates-nothing", "missing:%s" % e["id"][:8],
                                  "%d matches <= limit %d but %s is missing" % (len(loose), n_allowed, e["id"][:8])))
            elif n_allowed > 0 and len(strict) >= n_allowed and len(sent) < n_allowed and len(loose) == len(strict):
                v.append(("limit-is-reached", "short:%d<%d" % (len(sent), n_allowed),
                          "%d matches, limit %d, only %d sent" % (len(strict), n_allowed, len(sent))))
    return v


# ---------------------------------------------------------------------------------------------------
# Two connections ask at once with different limits (SCHED): each answer obeys its own limit and holds the newest matches.
import json  # noqa: E402

from ..schedmode import SchedMode  # noqa: E402
from ..universe import make_event  # noqa: E402

S_EVS = [make_event("A" if i % 2 else "B", 1, 10 * (i + 1), [["t", "x"]], "n%d" % i) for i in range(5)]  # created_at 10..50
S_SCRIPTS = {
    "two_limits": [("c1", ["REQ", "a", {"kinds": [1], "limit": 1}]), ("c2", ["REQ", "b", {"kinds": [1], "limit": 2}])],
    "limit_vs_none": [("c1", ["REQ", "a", {"#t": ["x"], "limit": 1}]), ("c2", ["REQ", "b", {"kinds": [1]}])],
    "zero_vs_two": [("c1", ["REQ", "a", {"kinds": [1], "limit": 0}]), ("c2", ["REQ", "b", {"kinds": [1], "limit": 2}]), ("c1", ["REQ", "c", {"kinds": [1], "limit": 10}])],
    "same_filter_other_limit": [("c1", ["REQ", "a", {"kinds": [1], "limit": 2}]), ("c2", ["REQ", "a", {"kinds": [1], "limit": 1}]), ("c1", ["REQ", "d", {"kinds": [1], "limit": 1}])],
}


def _s_build(name, backend, policy):
    from ..explorer import Scenario

    def setup(w):
        f = w.connect("setup", "9.9.9.9")
        w.run(1e6)
        for ev in S_EVS:
            w.send("setup", ["EVENT", ev], 1e6)
        f.drop()
        w.run(1e6)
        del w.conns["setup"]

    return Scenario("%s%s|%s" % (name, "@fair" if policy == "fair" else "", backend), backend, [("c1", "1.1.1.1"), ("c2", "2.2.2.2")], S_SCRIPTS[name],
                    storage_options={"stats_interval": 1e15}, setup=setup, horizon=30.0, policy=policy, max_limit=MAX_LIMIT)


def _s_judge(x, name, backend, viol, cid, sig):
    newest = [e["id"] for e in sorted(S_EVS, key=lambda e: -e["created_at"])]
    for cn, fr in S_SCRIPTS[name]:
        sid, f = fr[1], fr[2]
        want = eff(f)
        got = []
        eose = 0
        for k, _, p in x.world.conns[cn].transcript:
            if k == "send":
                m = json.loads(p)
                if m[0] == "EVENT" and m[1] == sid:
                    got.append(m[2]["id"])
                elif m[0] == "EOSE" and m[1] == sid:
                    eose += 1
        if eose != 1:
            viol.append({"case": cid, "clause": "answered-with-eose", "sig": sig + "|%s|%s" % (cn, sid), "detail": "%d EOSE frames for %s/%s" % (eose, cn, sid)})
            continue
        if len(got) > want:
            viol.append({"case": cid, "clause": "at-most-limit", "sig": sig + "|%s|%s" % (cn, sid),
                         "detail": "%s/%s asked for limit %r (effective %d) and received %d events" % (cn, sid, f.get("limit"), want, len(got))})
        elif set(got) != set(newest[:want]):
            viol.append({"case": cid, "clause": "newest-first" if len(got) == want else "limit-does-not-starve-a-filter", "sig": sig + "|%s|%s" % (cn, sid),
                         "detail": "%s/%s (effective limit %d, 5 matches) received %d events, expected exactly the %d newest" % (cn, sid, want, len(got), want)})


SCHEDMODE = SchedMode(S_SCRIPTS, _s_build, _s_judge, max_limit=MAX_LIMIT)


def run_midstream(case):
    """SQL: the engine fails while the result of a REQ is being read (row k of the stream): the client still gets at most its limit, no event
    twice, and an answer (EOSE or NOTICE)"""
    from ..harness import World

    viol = []
    n = 0
    cid = "midstream|sql"
    for lim in (1, 2, 3, 5, None):
        for k in (1, 2, 3, 4):
            w = World("sql", storage_options={"stats_interval": 1e15}, max_limit=MAX_LIMIT, message_timeout=1e300)
            try:
                c = w.connect("c", "1.1.1.1")
                w.run(1e6)
                for ev in S_EVS:
                    w.send("c", ["EVENT", ev], 1e6)
                f = {"kinds": [1]}
                if lim is not None:
                    f["limit"] = lim
                n0 = len(c.transcript)
                w.sql.fetch_fault = {"at": k}
                try:
                    w.send("c", ["REQ", "q", f], 1e6)
                finally:
                    w.sql.fetch_fault = None
                n += 1
                got = []
                answered = False
                for kind, _, p in c.transcript[n0:]:
                    if kind == "send":
                        m = json.loads(p)
                        if m[0] == "EVENT" and m[1] == "q":
                            got.append(m[2]["id"])
                        elif m[0] in ("EOSE", "NOTICE"):
                            answered = True
                want = eff(f)
                sig = "limit=%r|fault@row%d" % (lim, k)
                if len(got) > want or len(set(got)) != len(got):
                    viol.append({"case": cid, "clause": "at-most-limit", "sig": sig,
                                 "detail": "limit %r (effective %d), engine failure while row %d was read: %d events sent (%d distinct)" % (lim, want, k, len(got), len(set(got)))})
                if not answered and c.closed_by_relay is None:
                    viol.append({"case": cid, "clause": "answered-with-eose", "sig": sig, "detail": "REQ neither answered nor refused after a failure while row %d was read" % k})
                # the next REQ on the same connection is served normally
                n0 = len(c.transcript)
                w.send("c", ["REQ", "r", {"kinds": [1], "limit": 2}], 1e6)
                again = [json.loads(p)[2]["id"] for kind, _, p in c.transcript[n0:] if kind == "send" and p.startswith('["EVENT","r"')]
                if len(again) != 2:
                    viol.append({"case": cid, "clause": "limit-does-not-starve-a-filter", "sig": sig + "|next", "detail": "the REQ after the failed one received %d events, expected 2" % len(again)})
            finally:
                w.close()
    return {"id": cid, "viol": viol, "outcome": None, "evals": n, "states": n, "transitions": n, "nontrivial": True, "desc": {"mode": "midstream", "backend": "sql"},
            "extra": {"midstream_faulted_reqs": n}, "sample": {"mode": "midstream", "reqs": n}}


def run_case(case):
    if case[0] == "midstream":
        return run_midstream(case)
    if case[0] == "sched":
        return SCHEDMODE.run(case)
    backend, S, tier = case
    uni = Q.U1()
    sess = seq.session(backend, max_limit=MAX_LIMIT)
    Q.build_store(sess, S)
    store_events = [uni[nm] for nm in S]
    byid = {e["id"]: nm for nm, e in uni.items()}
    viol = []
    n = 0
    truncated = 0
    for filters in filters_for(tier):
        evs, eose, notices, closed, others = Q.answer(sess, filters)
        n += 1
        stripped = [{k: x for k, x in f.items() if k != "limit"} for f in filters]
        if len(filters) == 1 and len([e for e in store_events if Q.loose_matches(stripped[0], e)]) > eff(filters[0]):
            truncated += 1
        for clause, sig, detail in judge(store_events, filters, evs, eose, closed):
            fk = Q.fkey(filters)
            viol.append({"case": "%s|S=%s" % (backend, ",".join(S)), "clause": clause, "sig": "%s|%s" % (sig, fk),
                         "detail": "%s | filters=%s | store={%s} | returned=%s" % (
                             detail, fk, ",".join(S), [byid.get(e["id"], e["id"][:8]) for e in evs])})
    cid = "%s|S=%s" % (backend, ",".join(S))
    return {"id": cid, "viol": viol, "outcome": None, "evals": n, "nontrivial": truncated > 0, "desc": describe(case),
            "extra": {"req_where_limit_truncates": truncated},
            "sample": {"store": list(S), "backend": backend, "filter_lists": n, "truncating": truncated}}


def coverage(tier, agg):
    return {
        "rule": ("Config.max_limit=3; stores = all subsets of the first %d members of U1; filter lists = %d (base filters single/multi-value/"
                "multi-condition x limit in {absent,0,1,2,3,4,10}; 2- and 3-filter REQs with mixed limits); oracle: events attributable to one "
                "filter <= min(limit,max_limit); single filter: no left-out strict match newer than a sent one; matches <= limit => none missing; "
                "non-trivial case = store where at least one filter has more matches than its effective limit" + SCHEDMODE.rule() + ": two connections ask at once with "
                "different limits over five matching events; each answer has exactly min(limit, max_limit) events, the newest ones | midstream (SQL): the engine fails while row k = 1..4 of a "
                "REQ's result is being read, limits {1,2,3,5,absent}: at most the limit, nothing twice, the REQ is answered, the next REQ is served") % (
                    7 if tier == "quick" else len(Q.members(tier)), len(filters_for(tier))),
        "limits": [str(x) for x in LIMITS],
        "backends": ["sql", "kv"],
    }


def replay(desc):
    if desc.get("mode") == "midstream":
        r = run_case(("midstream", "sql", (), "quick"))
    elif desc.get("mode") == "sched":
        r = run_case(SCHEDMODE.from_desc(desc))
    else:
        r = run_case((desc["backend"], tuple(desc["store"]), desc.get("tier", "quick")))
    for v in r["viol"][:20]:
        print(v["clause"], v["detail"])
    return r["viol"]
