"""C02 - a REQ returns every matching stored event exactly once when under its limit.
QUERY table: every subset of the universe (store) x every filter list of the well-formed language,
answered through the real websocket REQ path, compared with the NIP-01 reference matcher."""
import json
from .. import seq, qtable as Q

ID = "C02"
LEVEL = "model_checking"
ASSUMPTIONS = ["real nostr_relay code imported from /repo's working tree, driven through web.start_client / the storage API; SQLite runs for real behind a same-thread connection shim (bound to real aiosqlite by C06's conformance cases); LMDB is an in-memory double (bound to the real liblmdb by C10's conformance cases), msgpack is pip's pure-python codec; asyncio runs on a controlled virtual-time loop; stores are built through the real EVENT path, answers come from the real REQ path (default schedule)"]
CHUNK = 1


def cases(tier):
    out = []
    for uname in ("U1", "U2"):
        names = Q.members(tier, uname)
        for backend in ("sql", "kv"):
            for S in Q.subsets(names):
                out.append((backend, S, tier, uname))
    # two workers on one database: the events are accepted by one worker, the REQs are answered by another one that was started on the
    # empty database (what a worker keeps in memory about the database must not stand in for the database)
    for S in Q.subsets(Q.members(tier, "U1")):
        if len(S) <= 2 or len(S) == len(Q.members(tier, "U1")):
            out.append(("sql2", S, tier, "U1"))
            # the LMDB backend of a busy process: the queue of the query-analysis thread is full
            out.append(("kvbusy", S, tier, "U1"))
    return out


def describe(case):
    return {"backend": case[0], "store": list(case[1]), "tier": case[2], "universe": case[3] if len(case) > 3 else "U1"}


_F = {}


def filters_for(tier, uname="U1"):
    if (tier, uname) not in _F:
        if uname == "U2":
            singles = [[f] for f in Q.W_single_U2(tier)]
            fo = Q.field_options_U2()
            multi = [[{"#t": ["a"]}, {"#t": ["ab"]}], [{"#t": ["a"], "since": 7}, {"#e": ["ab"]}], [{"#e": ["a", "ab"], "#p": [fo["#p"][0][0]]}, {"kinds": [2]}]]
            _F[(tier, uname)] = singles + multi
        else:
            singles = [[f] for f in Q.W_single(tier)]
            multi = [fl for fl in Q.W_multi(tier) if len(fl) <= 5]
            # explicit small limits: completeness is demanded whenever the number of matches does not exceed the limit
            limited = []
            for f in Q.W_single("quick")[:: (23 if tier == "quick" else 3)]:
                for lim in (1, 2, 5):
                    limited.append([dict(f, limit=lim)])
            fo = Q.field_options()
            for f in ({"#e": ["a"], "#p": fo["#p"][0]}, {"#e": ["a", "ab"], "#t": ["it's"]}, {"ids": fo["ids"][4], "until": 20}, {"ids": fo["ids"][2], "since": 15},
                      {"kinds": [1], "#e": ["a"]}, {"authors": fo["authors"][2], "#e": ["b", "a"]}):
                for lim in (1, 2, 3):
                    limited.append([dict(f, limit=lim)])
            _F[(tier, uname)] = singles + multi + limited
    return _F[(tier, uname)]


def judge(store_events, filters, evs, eose, notices, closed):
    """-> list of (clause, sig, detail)"""
    v = []
    if closed or eose != 1:
        v.append(("answered-with-eose", "eose=%d closed=%s" % (eose, closed), "eose=%d closed=%s notices=%r" % (eose, closed, notices)))
        return v
    got = {}
    for e in evs:
        got[e["id"]] = got.get(e["id"], 0) + 1
    # a filter is judged for completeness only if its matches do not exceed its limit
    def bare(f):
        return {k: v for k, v in f.items() if k != "limit"}

    active = []
    for f in filters:
        lim = f.get("limit")
        if lim is not None and sum(1 for e in store_events if Q.loose_matches(bare(f), e)) > lim:
            continue
        active.append(bare(f))
    allf = [bare(f) for f in filters]
    for ev in store_events:
        k_strict = sum(1 for f in active if Q.strict_matches(f, ev))
        k_loose = sum(1 for f in allf if Q.loose_matches(f, ev))
        n = got.get(ev["id"], 0)
        if k_strict >= 1 and n < 1:
            v.append(("complete", "missing:" + ev["id"][:8], "matching event %s (t=%d kind=%d) not delivered" % (ev["id"][:8], ev["created_at"], ev["kind"])))
        if n > max(k_loose, 0) and k_loose >= 1:
            v.append(("at-most-k-times", "dup:%s:%d" % (ev["id"][:8], n), "event %s delivered %d times but matches %d filter(s)" % (ev["id"][:8], n, k_loose)))
    return v


def run_case(case):
    backend, S, tier = case[:3]
    uname = case[3] if len(case) > 3 else "U1"
    uni = Q.UNIVERSES[uname]()
    sess = seq.session("sql", second_worker=True) if backend == "sql2" else (seq.session("kv", analysis_full=True) if backend == "kvbusy" else seq.session(backend))
    Q.build_store(sess, S, uni)
    store_events = [uni[nm] for nm in S]
    byid = {e["id"]: nm for nm, e in uni.items()}
    viol = []
    n = 0
    nontrivial = 0
    planidx = {}
    todo = list(filters_for(tier, uname))
    # every multi-filter REQ once more with each filter's limit set to exactly its number of (loosely) matching stored events: no
    # filter exceeds its limit, so everything must still arrive (a cap on the whole REQ or on the wrong filter shows here)
    for filters in filters_for(tier, uname):
        if len(filters) >= 2 and all(isinstance(f, dict) and "limit" not in f for f in filters):
            counts = [sum(1 for e in store_events if Q.loose_matches(f, e)) for f in filters]
            if sum(counts) >= 2:
                todo.append([dict(f, limit=max(1, c)) for f, c in zip(filters, counts)])
    for filters in todo:
        evs, eose, notices, closed, others = Q.answer(sess, filters)
        n += 1
        if evs:
            nontrivial += 1
        for clause, sig, detail in judge(store_events, filters, evs, eose, notices, closed):
            fk = Q.fkey(filters)
            viol.append({"case": "%s|%s|S=%s" % (backend, uname, ",".join(S)), "clause": clause, "sig": "%s|%s" % (sig, fk),
                         "detail": "%s | filters=%s | store={%s} | returned=%s" % (
                             detail, fk, ",".join(S), [byid.get(e["id"], e["id"][:8]) for e in evs])})
    cid = "%s|%s|S=%s" % (backend, uname, ",".join(S))
    return {"id": cid, "viol": viol, "outcome": None, "evals": n, "nontrivial": nontrivial > 0, "desc": describe(case),
            "extra": {"req_with_results": nontrivial},
            "sample": {"store": list(S), "backend": backend, "filter_lists": n, "with_results": nontrivial}}


def coverage(tier, agg):
    fl = filters_for(tier)
    fl2 = filters_for(tier, "U2")
    return {
        "rule": "stores = all subsets of the %d-member regular-event universe U1 (authors A,B,C; kinds 1,2,255,256; timestamps 10,20,20,20,20,30,30, "
                "1700000000,1700000001,10; tag values a/ab/abc/b, quote, NUL, unicode, duplicate tag, delegation; ids ground to 00.. and ff..); "
                "filter lists = single filters with every combination of <=3 of ids/authors/kinds/#e/#p/#t/#d values x since/until windows at "
                "every timestamp +-1, plus 2..5-filter REQs, each of those also with every filter's limit set to exactly its number of matching "
                "stored events; oracle = NIP-01 reference matcher: strict-window matches must be delivered, "
                "an event matching k filters arrives <= k times; non-trivial case = store with at least one non-empty answer" % len(Q.members(tier)),
        "filter_lists_per_store": {"U1": len(fl), "U2": len(fl2)},
        "stores_per_backend": {"U1": 2 ** len(Q.members(tier)), "U2": 2 ** len(Q.members(tier, "U2"))},
        "U2": "second universe of byte-order neighbours (tag values extending a requested value through NUL, two requested values on one event, "
              "equal timestamps) with its own filter language",
        "backends": ["sql", "kv", "sql2 = events accepted by one SQL worker, REQs answered by a second worker on the same database file (stores of <= 2 members and the full store)", "kvbusy = LMDB with the real analyze() and an analysis queue that is always full (same stores)"],
    }


def replay(desc):
    case = (desc["backend"], tuple(desc["store"]), desc.get("tier", "quick"), desc.get("universe", "U1"))
    r = run_case(case)
    for v in r["viol"][:20]:
        print(v["clause"], v["detail"])
    return r["viol"]
