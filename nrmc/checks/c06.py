"""C06 - OK acknowledgements agree with what the relay actually did. STORE BFS; per-transition oracle over
(OK frames, pushes to a catch-all subscriber, pre/post dumps)."""
from .. import store, refmodel as R
from ..universe import make_event

ID = "C06"
LEVEL = "model_checking"
ASSUMPTIONS = ["real nostr_relay code imported from /repo's working tree, driven through web.start_client / the storage API; SQLite runs for real behind a same-thread connection shim (bound to real aiosqlite by C06's conformance cases); LMDB is an in-memory double (bound to the real liblmdb by C10's conformance cases), msgpack is pip's pure-python codec; asyncio runs on a controlled virtual-time loop; real code, SQLite for real, LMDB double, sequential schedule; store observed after all background writers are idle"]

# integer range inside which a well-formed event must be accepted (outside it the relay may refuse,
# but an OK=true must still be truthful)
SAFE_INT = 2 ** 31


def universes():
    u = {}
    u["reg"] = make_event("A", 1, 100, [["e", "aa" * 32], ["p", "bb" * 32]], "regular")
    u["reg_b"] = make_event("B", 1, 100, [], "regular b")
    bad = dict(u["reg_b"])
    bad["sig"] = bad["sig"][:-2] + ("00" if bad["sig"][-2:] != "00" else "01")
    bad["content"] = "forged"
    u["badsig"] = bad
    nosig = dict(make_event("A", 1, 101, [], "nosig"))
    del nosig["sig"]
    u["nosig"] = nosig
    u["repl_t10"] = make_event("A", 10002, 10, [], "")
    u["repl_t20"] = make_event("A", 10002, 20, [], "")
    u["meta_t10"] = make_event("A", 0, 10, [], "{}")
    u["prep_abs_t10"] = make_event("A", 30000, 10, [], "")
    u["prep_a_t20"] = make_event("A", 30000, 20, [["d", "a"]], "")
    u["del_reg"] = make_event("A", 5, 200, [["e", u["reg"]["id"]]], "")
    u["del_mal"] = make_event("A", 5, 201, [["e", "zz"], ["e"]], "")
    u["eph"] = make_event("A", 20001, 100, [], "ephemeral")
    u["tag_bare_e"] = make_event("A", 1, 102, [["e"]], "")
    u["tag_bare_exp"] = make_event("A", 1, 103, [["expiration"]], "")
    u["tag_bare_d"] = make_event("A", 1, 104, [["d"]], "")
    u["tag_empty"] = make_event("A", 1, 105, [[]], "") if False else make_event("A", 1, 105, [["t", ""]], "")
    u["tag_len400"] = make_event("A", 1, 106, [["t", "x" * 400]], "")
    u["tag_len480"] = make_event("A", 1, 107, [["t", "x" * 480]], "")
    u["tag_len2000"] = make_event("A", 1, 108, [["r", "y" * 2000]], "")
    u["tag_longname"] = make_event("A", 1, 109, [["client", "z" * 600]], "")
    # few characters, many bytes (the LMDB key limit counts bytes): 200 and 256 three-byte characters, 255 two-byte ones
    u["tag_cjk200"] = make_event("A", 1, 120, [["t", "\u4e2d" * 200]], "")
    u["tag_cjk256"] = make_event("A", 1, 121, [["e", "\u4e2d" * 256]], "")
    u["tag_latin255"] = make_event("A", 1, 122, [["t", "\u00e9" * 255]], "")
    u["tag_nonstr"] = make_event("A", 1, 110, [["t", 5], ["e", None]], "")
    # tag items the SQL tag table cannot bind (nested value, object, integer beyond 64 bits): accepted or refused, but consistently
    u["tag_nested"] = make_event("A", 1, 111, [["t", ["x"]], ["e", "ab" * 32]], "")
    u["tag_object"] = make_event("A", 1, 112, [["p", {"a": 1}]], "")
    u["tag_bigint"] = make_event("A", 1, 113, [["t", 2 ** 70]], "")
    v = {}
    v["reg"] = u["reg"]
    for nm, t in (("t_2p31m1", 2 ** 31 - 1), ("t_2p31", 2 ** 31), ("t_2p32m1", 2 ** 32 - 1), ("t_2p32", 2 ** 32),
                  ("t_2p63", 2 ** 63), ("t_1", 1)):
        v[nm] = make_event("A", 1, t, [], nm)
    for nm, k in (("k_65535", 65535), ("k_2p31", 2 ** 31), ("k_2p32", 2 ** 32), ("k_2p63", 2 ** 63), ("k_40000", 40000)):
        v[nm] = make_event("A", k, 100, [], nm)
    return {"U6": u, "U6int": v}


def wellformed_in_range(e):
    if not R.authentic(e)[0]:
        return False
    # NIP-01: tags are arrays of strings; an authentic event with other tag items may be refused (consistently)
    if not all(isinstance(x, str) for t in e["tags"] for x in t):
        return False
    if not (0 < e["created_at"] < SAFE_INT and 0 <= e["kind"] < SAFE_INT):
        return False
    return True


def oracle(backend, uni, sess):
    def on_transition(hist, pre, nm, r, post):
        v = []
        e = uni[nm]
        P = store.decode_store(backend, pre)
        Q = store.decode_store(backend, post)
        oks = r["ok"]
        eid = e.get("id")
        if len(oks) != 1:
            v.append({"clause": "exactly-one-ok", "sig": str(len(oks)), "detail": "%d OK frames (%r) for %s; other=%r" % (len(oks), oks, nm, r["other"])})
            return v
        ok = oks[0]
        if not (len(ok) == 4 and isinstance(ok[2], bool) and isinstance(ok[3], str)):
            v.append({"clause": "ok-shape", "sig": "shape", "detail": repr(ok)})
            return v
        pushed_ids = [p.get("id") for p in r["pushed"]]
        dup = eid in P
        if ok[2]:
            if ok[1] != eid:
                v.append({"clause": "ok-id", "sig": "id", "detail": "OK names %r, submitted %r" % (ok[1], eid)})
            if dup:
                pass  # judged below
            elif eid in Q:
                pass
            elif R.is_ephemeral(e["kind"]) and eid in pushed_ids:
                pass
            else:
                alpha = R.address(e)
                superseded = alpha is not None and any(
                    R.address(x) == alpha and x["created_at"] >= e["created_at"] for x in Q.values())
                if not superseded:
                    v.append({"clause": "true-means-stored", "sig": nm,
                              "detail": "OK=true for %s but it is not retrievable (not stored, not ephemeral+pushed, not superseded)" % nm})
            if not dup and not R.is_ephemeral(e["kind"]) and eid in Q and pushed_ids.count(eid) != 1:
                v.append({"clause": "stored-broadcast-once", "sig": "%s:%d" % (nm, pushed_ids.count(eid)),
                          "detail": "newly stored %s pushed %d times to the catch-all subscriber" % (nm, pushed_ids.count(eid))})
        else:
            if not ok[3]:
                v.append({"clause": "false-has-reason", "sig": nm, "detail": "OK=false without reason for %s" % nm})
            if post != pre:
                v.append({"clause": "false-leaves-no-trace", "sig": nm, "detail": "OK=false for %s but the store changed" % nm})
            if pushed_ids:
                v.append({"clause": "false-not-broadcast", "sig": nm, "detail": "OK=false for %s but pushed %r" % (nm, pushed_ids)})
            if wellformed_in_range(e) and not dup:
                v.append({"clause": "valid-never-refused", "sig": nm,
                          "detail": "well-formed %s refused: %r" % (nm, ok[3])})
        if dup:
            if post != pre:
                v.append({"clause": "resubmit-changes-nothing", "sig": nm, "detail": "re-submission of stored %s changed the store" % nm})
            if eid in pushed_ids:
                v.append({"clause": "resubmit-not-broadcast", "sig": nm, "detail": "re-submission of stored %s was broadcast again" % nm})
        return v

    return on_transition


CHECK = store.StoreCheck(
    ID, universes, oracle,
    depths={"quick": {"U6": 2, "U6int": 2}, "thorough": {"U6": 3, "U6int": 3}},
    plen={"quick": 1, "thorough": 1},
    rule="universes U6 (regular, bad signature, missing sig, replaceable old/new, kind 0, parameterized, deletion, malformed deletion, "
         "ephemeral, bare e/expiration/d tags, empty value, tag values of 400/480/2000 bytes, 600-byte value under a multi-letter name, "
         "non-string tag items) and U6int (created_at and kind at 1, 2^31-1, 2^31, 2^32-1, 2^32, 2^63, 65535, 40000); a second connection "
         "holds a catch-all subscription",
)
CHECK.export(globals())

_base_cases = CHECK.cases
_base_run = CHECK.run_case
_base_describe = CHECK.describe


def cases(tier):
    """STORE shards plus the binding of the SQLite shim to the real aiosqlite driver (same sequences on both, see nrmc/sqlconf.py)"""
    import itertools

    out = list(_base_cases(tier))
    names = list(CHECK.U()["U6"])
    for first in names:
        out.append(("conformance", "aiosqlite", [first], 2))
    # same-connection histories (no state restore in between: per-connection state of the handler stays alive)
    lin = LINEAR if tier == "quick" else LINEAR + ["meta_t10", "prep_abs_t10", "prep_a_t20", "tag_nested", "badsig"]
    for backend in ("sql", "kv"):
        for first in lin:
            out.append(("linear", backend, [first], 3 if tier == "quick" else 4))
        # several workers configured, but the link to the notify server is down (as in the first seconds after start-up)
        out.append(("notifier_down", backend, ["reg"], 2))
    out += sched_cases(tier)
    return out


def describe(case):
    return _base_describe(case)


LINEAR = ["reg", "del_reg", "repl_t10", "repl_t20", "eph", "reg_b"]


def run_linear(case):
    import itertools
    from .. import seq

    _, backend, (first,), depth = case
    uni = CHECK.U()["U6"]
    lin = LINEAR if depth == 3 else LINEAR + ["meta_t10", "prep_abs_t10", "prep_a_t20", "tag_nested", "badsig"]
    sess = seq.session(backend)
    orc = oracle(backend, uni, sess)
    viol = []
    n = 0
    for rest in itertools.product(lin, repeat=depth - 1):
        names = [first] + list(rest)
        sess.reset()
        hist = []
        for nm in names:
            pre = sess.dump()
            r = sess.submit(uni[nm])
            post = sess.dump()
            n += 1
            for v in orc(hist, pre, nm, r, post):
                viol.append({"case": "%s|U=U6|same-connection" % backend, "clause": v["clause"], "sig": "%s@%s" % (v["sig"], ",".join(hist + [nm])),
                             "detail": v["detail"] + " | same connection, history=" + ",".join(hist + [nm])})
            hist.append(nm)
    uniq = {}
    for v in viol:
        uniq.setdefault((v["clause"], v["sig"]), v)
    return {"id": "linear|%s|%s" % (backend, first), "viol": list(uniq.values()), "outcome": None, "evals": n, "states": 0, "transitions": n, "nontrivial": True,
            "desc": describe(case), "extra": {"same_connection_submissions": n},
            "sample": {"case": "linear", "backend": backend, "first": first, "submissions": n}}


def run_notifier_down(case):
    from .. import seq

    _, backend, _, depth = case
    uni = CHECK.U()["U6"]
    sess = seq.session(backend, config={"run_notifier": True})
    orc = oracle(backend, uni, sess)
    viol = []
    n = 0
    names = ["reg", "reg_b", "repl_t10", "repl_t20", "del_reg", "eph", "badsig"]
    import itertools

    for seqn in itertools.product(names, repeat=depth):
        sess.reset()
        hist = []
        for nm in seqn:
            pre = sess.dump()
            r = sess.submit(uni[nm])
            post = sess.dump()
            n += 1
            for v in orc(hist, pre, nm, r, post):
                viol.append({"case": "%s|U=U6|notifier-down" % backend, "clause": v["clause"], "sig": "%s@%s" % (v["sig"], ",".join(hist + [nm])),
                             "detail": v["detail"] + " | notifier enabled but not connected, history=" + ",".join(hist + [nm])})
            hist.append(nm)
    uniq = {}
    for v in viol:
        uniq.setdefault((v["clause"], v["sig"]), v)
    return {"id": "notifier_down|%s" % backend, "viol": list(uniq.values()), "outcome": None, "evals": n, "states": 0, "transitions": n, "nontrivial": True,
            "desc": describe(case), "extra": {"notifier_down_submissions": n},
            "sample": {"case": "notifier_down", "backend": backend, "submissions": n}}


# ---------------------------------------------------------------------------------------------------
# Two connections at once (SCHED): a forged copy and the genuine event carrying the same id; the same event from two connections.
S_GEN = make_event("A", 1, 700, [["t", "race"]], "submitted on two connections at once")
S_FORGED = dict(S_GEN, sig=S_GEN["sig"][:-2] + ("00" if S_GEN["sig"][-2:] != "00" else "01"))
S_OTHER = make_event("B", 1, 701, [], "an unrelated event")
SCHED = {
    "forged_then_genuine": [("c1", ["REQ", "x", {"kinds": [1]}]), ("c2", ["EVENT", S_FORGED]), ("c3", ["EVENT", S_GEN])],
    "genuine_then_forged": [("c1", ["REQ", "x", {"kinds": [1]}]), ("c2", ["EVENT", S_GEN]), ("c3", ["EVENT", S_FORGED])],
    "same_event_twice": [("c1", ["REQ", "x", {"kinds": [1]}]), ("c2", ["EVENT", S_GEN]), ("c3", ["EVENT", S_GEN])],
    "forged_genuine_other": [("c2", ["EVENT", S_FORGED]), ("c3", ["EVENT", S_GEN]), ("c2", ["EVENT", S_OTHER])],
}


def sched_scenario(name, backend):
    from ..explorer import Scenario

    base, _, policy = name.partition("@")
    return Scenario("%s|%s" % (name, backend), backend, [("c1", "1.1.1.1"), ("c2", "2.2.2.2"), ("c3", "3.3.3.3")], SCHED[base],
                    storage_options={"stats_interval": 1e15}, horizon=30.0, policy=policy or "actor")


def sched_cases(tier):
    from .. import explorer, env

    env.boot()
    out = []
    for backend in ("sql", "kv"):
        for name in [n + sfx for n in SCHED for sfx in ("", "@fair")]:
            out.append(("sched", backend, [name], ()))
            firsts, npts = explorer.first_level(sched_scenario(name, backend))
            for p in firsts:
                out.append(("sched", backend, [name], tuple(p)))
    return out


def run_sched(case, tier="quick"):
    import json
    from .. import explorer

    _, backend, (name,), prefix = case
    scn = sched_scenario(name, backend)
    base = name.partition("@")[0]
    viol = []
    cid = "sched|%s|%s" % (name, backend)
    stats = {"n": 0, "points": 0}
    outcomes = set()

    def on_exec(x):
        w = x.world
        sig = "sched=%s" % explorer.rle(x.choices)
        stats["n"] += 1
        stats["points"] += len(x.points)
        verdicts = []
        for cn, fr in SCHED[base]:
            if fr[0] != "EVENT":
                continue
            c = w.conns[cn]
            oks = []
            for k, _, p in c.transcript:
                if k == "send":
                    try:
                        m = json.loads(p)
                    except ValueError:
                        continue
                    if m[0] == "OK":
                        oks.append(m)
            verdicts.append((cn, fr[1], oks))
        stored = store.decode_store(backend, w.dump())
        per_conn = {}
        for cn, ev, oks in verdicts:
            per_conn.setdefault(cn, []).append(ev)
        for cn, evs in per_conn.items():
            n_ok = len(next(oks for c2, e2, oks in verdicts if c2 == cn))
            if n_ok != len(evs):
                viol.append({"case": cid, "clause": "exactly-one-ok", "sig": sig + "|" + cn,
                             "detail": "%s sent %d EVENT frames and received %d OK frames | %s schedule=%s" % (cn, len(evs), n_ok, scn.name, x.choices)})
        any_true = False
        for cn, ev, oks in verdicts:
            genuine = ev is S_GEN or ev is S_OTHER
            if ev is S_FORGED:
                # the forged copy shares its id with the genuine event: its connection's OK must be false
                if any(m[2] is True for m in oks) and all(e is S_FORGED for e in per_conn[cn]):
                    viol.append({"case": cid, "clause": "true-means-stored", "sig": sig + "|forged",
                                 "detail": "the forged copy was acknowledged true | %s schedule=%s" % (scn.name, x.choices)})
            elif genuine and len(per_conn[cn]) == 1:
                t = [m for m in oks if m[2] is True]
                f = [m for m in oks if m[2] is False]
                any_true = any_true or bool(t)
                if f and not str(f[0][3]).startswith("duplicate"):
                    viol.append({"case": cid, "clause": "valid-never-refused", "sig": sig + "|" + cn,
                                 "detail": "the genuine event was refused with %r while a forged copy / another copy was in flight | %s schedule=%s" % (
                                     f[0][3], scn.name, x.choices)})
                if f and str(f[0][3]).startswith("duplicate") and ev["id"] not in stored:
                    viol.append({"case": cid, "clause": "false-leaves-no-trace", "sig": sig + "|dup|" + cn,
                                 "detail": "answered duplicate but the event is not stored | %s schedule=%s" % (scn.name, x.choices)})
                if t and ev["id"] not in stored:
                    viol.append({"case": cid, "clause": "true-means-stored", "sig": sig + "|" + cn,
                                 "detail": "OK true but the event is not retrievable afterwards | %s schedule=%s" % (scn.name, x.choices)})
        if S_GEN["id"] in stored and stored[S_GEN["id"]].get("sig") != S_GEN["sig"]:
            viol.append({"case": cid, "clause": "false-leaves-no-trace", "sig": sig + "|forged-stored",
                         "detail": "the stored copy carries the forged signature | %s schedule=%s" % (scn.name, x.choices)})
        # not broadcast again: after the subscriber's EOSE at most one live push of the event
        if "c1" in w.conns and any(cn == "c1" for cn, _ in SCHED[base]):
            c1 = w.conns["c1"]
            eose = next((q for k, q, p in c1.transcript if k == "send" and p.startswith('["EOSE"')), None)
            late = [q for k, q, p in c1.transcript if k == "send" and p.startswith('["EVENT"') and S_GEN["id"] in p and eose is not None and q > eose]
            allp = [q for k, q, p in c1.transcript if k == "send" and p.startswith('["EVENT"') and S_GEN["id"] in p]
            if len(late) > 1 or len(allp) > 2:
                viol.append({"case": cid, "clause": "resubmission-not-broadcast-again", "sig": sig,
                             "detail": "the subscriber received the event %d times (%d after its EOSE) | %s schedule=%s" % (len(allp), len(late), scn.name, x.choices)})
        if w.loop.handler_errors:
            viol.append({"case": cid, "clause": "no-stray-exceptions", "sig": sig, "detail": repr(w.loop.handler_errors[:2])})
        outcomes.add(json.dumps([[m[2] for m in oks] for _, _, oks in verdicts]))
        for v in viol:
            v.setdefault("exact", {"scenario": name, "backend": backend, "choices": list(x.choices)})

    # the two-copies scenario is explored one deviation deeper (the second duplicate check overtaking the first insert needs two)
    deeper = 1 if base == "same_event_twice" else 0
    if not prefix:
        explorer.explore(scn, 0, on_exec)
    else:
        explorer.explore(scn, deeper, on_exec, root_prefix=list(prefix))
    return {"id": "%s|p=%s" % (cid, explorer.rle(list(prefix))), "viol": viol, "outcome": sorted(outcomes), "outcome_is_set": True,
            "evals": stats["n"], "states": stats["points"], "transitions": stats["points"], "nontrivial": True, "desc": describe(case),
            "extra": {"sched_executions": stats["n"], "sched_choice_points": stats["points"]},
            "sample": {"mode": "sched", "scenario": scn.name, "prefix": list(prefix), "executions": stats["n"]}}


def run_case(case):
    if case[0] == "sched":
        return run_sched(case)
    if case[0] == "notifier_down":
        return run_notifier_down(case)
    if case[0] == "linear":
        return run_linear(case)
    if case[0] != "conformance":
        return _base_run(case)
    from .. import sqlconf

    uni = CHECK.U()["U6"]
    first = case[2][0]
    viol = []
    n = 0
    for second in uni:
        for third in (first, "reg"):
            seqn = [first, second, third]
            evs = [uni[x] for x in seqn if "id" in uni[x] and "sig" in uni[x] or True]
            (ra, da), (rb, db) = sqlconf.compare(evs, first)
            n += 1
            if ra != rb or da != db:
                viol.append({"case": "conformance", "clause": "shim-agrees-with-aiosqlite", "sig": ",".join(seqn),
                             "detail": "sequence %s: real aiosqlite run gives %r, shim run gives %r, dumps equal=%s" % (seqn, ra, rb, da == db)})
    return {"id": "conformance|%s" % first, "viol": viol, "outcome": None, "evals": n, "states": 0, "transitions": 0, "nontrivial": True,
            "desc": describe(case), "extra": {"aiosqlite_conformance_sequences": n},
            "sample": {"case": "conformance", "first": first, "sequences": n}}


_base_coverage = CHECK.coverage


def coverage(tier, agg):
    c = _base_coverage(tier, agg)
    c["rule"] += (" | same-connection histories: all sequences of <= %d submissions over %r on ONE connection without restoring the store; "
                  "notifier-down: several workers configured, link to the notify server down; conformance: the SQLite shim against the real aiosqlite "
                  "driver on all 3-step sequences; sched: scenarios %s (a forged copy and the genuine event with the same id on two connections, the "
                  "same event on two connections, with a subscriber) under both base schedules with <= 1 deviation (<= 2 for the two-copies scenario): "
                  "one OK per EVENT, the forged copy false, the genuine event never refused except as a stored duplicate, true means stored, the stored "
                  "copy is the genuine one, at most one live push after the subscriber's EOSE." % (3 if tier == "quick" else 4, LINEAR, sorted(SCHED)))
    return c

