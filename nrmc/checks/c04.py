"""C04 - every frame the relay sends is well-formed and every served event is verbatim.
(1) every Unicode scalar value in four positions (content, tag value, tag name, subscription id), packed;
(2) typed tag-element grammar; (3) subscription-id grammar incl. non-string JSON values; (4) all frame
kinds.  Paths: live push, stored REQ answer (SQL row / msgpack row -> hand-written serializer), HTTP
/e/<id> (falcon JSON media handler).  Frames are parsed with the stdlib json parser (independent of
rapidjson and of the f-string serializer)."""
import json
import itertools

from .. import seq, refmodel as R
from ..universe import make_event, PK

ID = "C04"
LEVEL = "model_checking"
ASSUMPTIONS = ["real nostr_relay code imported from /repo's working tree, driven through web.start_client / the storage API; SQLite runs for real behind a same-thread connection shim (bound to real aiosqlite by C06's conformance cases); LMDB is an in-memory double (bound to the real liblmdb by C10's conformance cases), msgpack is pip's pure-python codec; asyncio runs on a controlled virtual-time loop; HTTP path = real ViewEventResource.on_get + falcon's response media rendering, called without a socket"]
CHUNK = 4

PACK = 256
SID_PACK = 48


def _reject_constant(c):
    raise ValueError("non-JSON constant %s" % c)


def parse_strict(text):
    return json.loads(text, parse_constant=_reject_constant)


def scalar_packets(pack):
    """consecutive runs of `pack` Unicode scalar values (surrogates excluded)"""
    cps = itertools.chain(range(0, 0xD800), range(0xE000, 0x110000))
    buf = []
    first = None
    for cp in cps:
        if first is None:
            first = cp
        buf.append(cp)
        if len(buf) == pack:
            yield first, cp, "".join(map(chr, buf))
            buf, first = [], None
    if buf:
        yield first, buf[-1], "".join(map(chr, buf))


_P = {}


def packets(pack):
    if pack not in _P:
        _P[pack] = list(scalar_packets(pack))
    return _P[pack]


def select(tier, pack):
    ps = packets(pack)
    if tier == "thorough":
        return list(range(len(ps)))
    # quick: everything below U+0800 (controls, quotes, backslash, DEL, C1, Latin..), U+2028/2029, the BOM/specials block, the first
    # and last astral packets, and every 61st packet (coprime with block layout)
    idx = set()
    for i, (a, b, _) in enumerate(ps):
        if a < 0x800 or a <= 0x2028 <= b or a <= 0xFFFD <= b or a <= 0xFEFF <= b or a <= 0x10000 <= b or b == 0x10FFFF or a <= 0xD7FF <= b:
            idx.add(i)
    idx.update(range(0, len(ps), 61))
    return sorted(idx)


TAG_ITEMS = ["s", "", 0, 5, -5, 2 ** 53 + 1, 2 ** 63, 2 ** 64 - 1, 1.5, 1e100, True, False, None, [], ["n"], [["n"]], {}, {"k": "v"},
             # numbers at and beyond the edges of the 64-bit and double ranges (a decoder's "native" number mode rounds these)
             2 ** 63 - 1, -2 ** 63, -2 ** 63 - 1, 2 ** 64, 2 ** 64 + 1, 10 ** 30, -10 ** 30, 0.1 + 0.2, 1 / 3, 5e-324, 1.7976931348623157e308, -0.0, 1e21,
             123456789.12345679, 2.2250738585072014e-308, 9007199254740993.0]
SIDS = ['a"b', "a\\b", "\\", '"', "\x00", "\x01\x02\x1f", "\n\r\t", "\x7f", "  ", "\U0001f600", "", "x" * 64, "x" * 300, "é",
        "\\u0041", "\\\"", "sub", "]", '","x', "null", "﻿"]
SID_NONSTR = [5, 0, -1, 1.5, True, False, None, [], [1], ["a"], {}, {"a": 1}, 2 ** 64]


# kinds the relay treats specially (replaceable, deletion, ephemeral, parameterized replaceable and their boundaries) x the tags
# its storage code looks into (d, e, a, p, expiration, delegation): whatever is accepted must be served as it was signed
KIND_GRAMMAR = [0, 3, 5, 7, 10000, 19999, 20000, 29999, 30000, 39999, 40000]
SPECIAL_TAGS = [
    [["d"]], [["d", ""]], [["d", "a"]], [["d", "a"], ["d", "b"]], [["t", "x"], ["d"]], [["d"], ["d", "z"]], [["d", "a", "extra"]], [["d", 1]], [["d", None]],
    [["e"]], [["e", ""]], [["e", "zz"]], [["e", "ab" * 32]], [["e", "ab" * 32], ["e"]], [["e", "AB" * 32]], [["e", 5]],
    [["a"]], [["a", "30000:%s:x" % ("ab" * 32)]], [["p"]], [["p", "ab" * 32, "wss://r"]], [["p", "AB" * 32]],
    [["expiration"]], [["expiration", ""]], [["expiration", "abc"]], [["expiration", "99999999999"]], [["expiration", 99999999999]],
    [["expiration", "99999999999", "x"]], [["delegation"]], [["delegation", "ab" * 32]], [["D", "a"]], [["d", "a"], ["e", "ab" * 32], ["expiration", "99999999999"]],
]


def run_kindgrammar(case):
    _, backend, kind, _, tier = case
    kind = int(kind)
    sess = seq.session(backend)
    viol = []
    cid = "%s|kindgrammar|%d" % (backend, kind)
    n = 0
    accepted = 0
    for k, tags in enumerate(SPECIAL_TAGS):
        try:
            ev = make_event("A", kind, 3000 + k, tags, "kg")
        except Exception:
            continue
        label = "kind=%d tags=%s" % (kind, json.dumps(tags)[:70])
        if roundtrip(sess, backend, ev, label, viol, cid, must_accept=False):
            accepted += 1
        n += 1
    return viol, n, accepted


def cases(tier):
    out = []
    for backend in ("sql", "kv"):
        for pos in ("content", "tagvalue", "tagname"):
            sel = select(tier, PACK)
            for lo in range(0, len(sel), 8):
                out.append(("cp", backend, pos, tuple(sel[lo:lo + 8]), tier))
        sel = select(tier, SID_PACK)
        for lo in range(0, len(sel), 64):
            out.append(("sid", backend, "subid", tuple(sel[lo:lo + 64]), tier))
        out.append(("taggrammar", backend, "", (), tier))
        for kind in KIND_GRAMMAR:
            out.append(("kindgrammar", backend, str(kind), (), tier))
        out.append(("sidgrammar", backend, "", (), tier))
        out.append(("framekinds", backend, "", (), tier))
        out.append(("echo", backend, "", (), tier))
    out += SCHEDMODE.cases(tier)
    return out


def describe(case):
    if case[0] == "sched":
        return SCHEDMODE.describe(case)
    return {"mode": case[0], "backend": case[1], "pos": case[2], "packets": list(case[3]), "tier": case[4]}


def frame_shape(m):
    if not isinstance(m, list) or not m:
        return False
    k = m[0]
    if k == "EVENT":
        return len(m) == 3 and isinstance(m[1], str) and isinstance(m[2], dict)
    if k == "EOSE":
        return len(m) == 2 and isinstance(m[1], str)
    if k == "OK":
        return len(m) == 4 and isinstance(m[1], str) and isinstance(m[2], bool) and isinstance(m[3], str)
    if k in ("NOTICE", "AUTH"):
        return len(m) == 2 and isinstance(m[1], str)
    return False


def same_json(a, b):
    """value + type-class equality (1 vs 1.0 vs True distinct)"""
    if type(a) is not type(b):
        return False
    if isinstance(a, dict):
        return a.keys() == b.keys() and all(same_json(a[k], b[k]) for k in a)
    if isinstance(a, list):
        return len(a) == len(b) and all(same_json(x, y) for x, y in zip(a, b))
    return a == b


def http_get(sess, eid):
    return sess.w.http_get(eid)


def check_frames(raws, viol, cid, label, want_sid=None):
    parsed = []
    for raw in raws:
        try:
            m = parse_strict(raw)
        except ValueError as e:
            viol.append({"case": cid, "clause": "frame-is-json", "sig": label, "detail": "%s: frame does not parse (%s): %r" % (label, e, raw[:160])})
            continue
        if not frame_shape(m):
            viol.append({"case": cid, "clause": "frame-shape", "sig": label, "detail": "%s: frame has no NIP-01 shape: %r" % (label, raw[:160])})
            continue
        if want_sid is not None and m[0] in ("EVENT", "EOSE") and m[1] != want_sid:
            viol.append({"case": cid, "clause": "subscription-id-verbatim", "sig": label,
                         "detail": "%s: subscription id %r came back as %r" % (label, want_sid[:40], m[1][:40])})
        parsed.append(m)
    return parsed


# aionostr hashes the canonical serialisation produced by rapidjson, which spells the \u escapes of these control
# characters with upper-case hex (\u000B) where JSON.stringify / the stdlib spell them lower-case: events containing them get a
# different id under the third-party library the relay verifies with.  That is outside /repo; such events are signed "their
# way" here so that the frames carrying these code points are still exercised (authenticity re-check skipped for them).
RJ_DIVERGENT = set("\x0b\x0e\x0f\x1a\x1b\x1c\x1d\x1e\x1f\x7f")


def sign_like_relay(sess, ev):
    E = sess.w.ns.base.Event
    from ..universe import SK, _sign

    e = dict(ev)
    e["id"] = E.compute_id(e["pubkey"], e["created_at"], e["kind"], e["tags"], e["content"])
    e["sig"] = _sign(SK["A"], e["id"])
    return e


def roundtrip(sess, backend, ev, label, viol, cid, must_accept=True, http=True, check_auth=True):
    """submit ev; check live push, stored answer and HTTP body"""
    sess.reset()
    s0 = len(sess.cs.transcript)
    n0 = len(sess.cw.transcript)
    frame = json.dumps(["EVENT", ev], ensure_ascii=False)
    sess.w.send(sess.cw, frame, sess.HORIZON)
    ws_frames = [t[2] for t in sess.cw.transcript[n0:] if t[0] == "send"]
    oks = [m for m in check_frames(ws_frames, viol, cid, label + "|ok") if m[0] == "OK"]
    accepted = bool(oks) and oks[0][2] is True
    if not accepted:
        if must_accept:
            viol.append({"case": cid, "clause": "packet-accepted", "sig": label, "detail": "%s: valid event refused: %r" % (label, oks[:1] or ws_frames[:1])})
        return False
    live = [t[2] for t in sess.cs.transcript[s0:] if t[0] == "send"]
    got = [m for m in check_frames(live, viol, cid, label + "|live", want_sid="all") if m[0] == "EVENT"]
    if len(got) != 1:
        viol.append({"case": cid, "clause": "served-verbatim", "sig": label + "|live", "detail": "%s: %d parseable live pushes" % (label, len(got))})
    for m in got:
        if not same_json(m[2], ev):
            viol.append({"case": cid, "clause": "served-verbatim", "sig": label + "|live", "detail": "%s: live push differs from the accepted event: %r" % (label, diff(m[2], ev))})
    raws, closed = sess.query([{"ids": [ev["id"]]}], sub_id="q", raw=True)
    got = [m for m in check_frames(raws, viol, cid, label + "|stored", want_sid="q") if m[0] == "EVENT"]
    if not R.is_ephemeral(ev["kind"]):
        if len(got) != 1:
            viol.append({"case": cid, "clause": "served-verbatim", "sig": label + "|stored", "detail": "%s: %d parseable stored answers (%r)" % (label, len(got), [r[:80] for r in raws])})
        for m in got:
            if not same_json(m[2], ev):
                viol.append({"case": cid, "clause": "served-verbatim", "sig": label + "|stored",
                             "detail": "%s: stored answer differs from the accepted event: %r" % (label, diff(m[2], ev))})
            elif check_auth and not R.authentic(m[2])[0]:
                viol.append({"case": cid, "clause": "served-verbatim", "sig": label + "|stored-auth", "detail": "%s: served event no longer verifies" % label})
        if http:
            body = http_get(sess, ev["id"])
            if isinstance(body, tuple):
                viol.append({"case": cid, "clause": "served-verbatim", "sig": label + "|http", "detail": "%s: /e/<id> answered %r" % (label, body)})
            else:
                try:
                    obj = parse_strict(body)
                    if not same_json(obj, ev):
                        viol.append({"case": cid, "clause": "served-verbatim", "sig": label + "|http", "detail": "%s: HTTP body differs: %r" % (label, diff(obj, ev))})
                except ValueError as e:
                    viol.append({"case": cid, "clause": "frame-is-json", "sig": label + "|http", "detail": "%s: HTTP body does not parse: %s" % (label, e)})
    return True


def diff(a, b):
    if isinstance(a, dict) and isinstance(b, dict):
        return {k: (str(a.get(k))[:60], str(b.get(k))[:60]) for k in set(a) | set(b) if not same_json(a.get(k), b.get(k)) }
    return (str(a)[:80], str(b)[:80])


def bisect_packet(fn, text):
    """shrink a failing packet to a single code point if a single one suffices"""
    for ch in text:
        if fn(ch):
            return ch
    return None


def run_cp(case):
    _, backend, pos, idxs, tier = case
    sess = seq.session(backend)
    viol = []
    cid = "%s|%s" % (backend, pos)
    n = 0
    ps = packets(PACK)
    for i in idxs:
        a, b, text = ps[i]
        label = "cp=%04X-%04X" % (a, b)

        def mk(t):
            if pos == "content":
                return make_event("A", 1, 1000 + i, [["t", "x"]], t)
            if pos == "tagvalue":
                return make_event("A", 1, 1000 + i, [["t", t], ["e", "k" + t]], "c")
            return make_event("A", 1, 1000 + i, [[t, "v"], ["x" + t, "w"]], "c")

        before = len(viol)
        div = [ch for ch in text if ch in RJ_DIVERGENT]
        if div:
            ev = sign_like_relay(sess, mk(text))
            roundtrip(sess, backend, ev, label, viol, cid, check_auth=False)
        else:
            roundtrip(sess, backend, mk(text), label, viol, cid)
        n += 1
        if len(viol) > before:
            # shrink to single code points for the report (the verdict is already decided)
            bad = []
            for ch in text:
                tmp = []
                roundtrip(sess, backend, sign_like_relay(sess, mk(ch)), "cp=%04X" % ord(ch), tmp, cid, check_auth=False)
                n += 1
                if tmp:
                    bad.append("%04X" % ord(ch))
                    if len(bad) <= 3:
                        viol.extend(tmp[:1])
            for v in viol[before:]:
                v["detail"] += " | failing code points in packet: %s" % ",".join(bad[:20])
    return viol, n


def run_sid(case):
    _, backend, pos, idxs, tier = case
    sess = seq.session(backend)
    viol = []
    cid = "%s|subid" % backend
    sess.reset()
    ev = make_event("A", 1, 999, [], "for sub-id checks")
    sess.submit(ev)
    n = 0
    ps = packets(SID_PACK)
    for i in idxs:
        a, b, text = ps[i]
        label = "sid=%04X-%04X" % (a, b)
        raws, closed = sess.query([{"ids": [ev["id"]]}], sub_id=text, raw=True)
        n += 1
        before = len(viol)
        ms = check_frames(raws, viol, cid, label, want_sid=text)
        kinds = [m[0] for m in ms]
        if len(viol) == before and (kinds.count("EOSE") != 1 or kinds.count("EVENT") != 1) and "NOTICE" not in kinds:
            viol.append({"case": cid, "clause": "frame-shape", "sig": label, "detail": "%s: expected EVENT+EOSE, got %r closed=%s" % (label, kinds, closed)})
        if len(viol) > before:
            bad = []
            for ch in text:
                tmp = []
                raws, closed = sess.query([{"ids": [ev["id"]]}], sub_id=ch, raw=True)
                check_frames(raws, tmp, cid, "sid=%04X" % ord(ch), want_sid=ch)
                n += 1
                if tmp:
                    bad.append("%04X" % ord(ch))
            viol[before]["detail"] += " | failing code points: %s" % ",".join(bad[:20])
    return viol, n


def run_taggrammar(case):
    _, backend, _, _, tier = case
    sess = seq.session(backend)
    viol = []
    cid = "%s|taggrammar" % backend
    n = 0
    accepted = 0
    shapes = []
    for x in TAG_ITEMS:
        shapes.append([[x, "v"]])
        shapes.append([["t", x]])
        shapes.append([["t", "v", x]])
        shapes.append([["e", "v"], ["t", x, x]])
    shapes += [[[]], [], [["t"]], [[""]], [["", ""]], [["t", "v"], []]]
    # members of tags that are not arrays at all (served verbatim if accepted)
    shapes += [["abc"], ["t", "v"], [5], [None], [True], [{"t": "v"}], [["t", "v"], "x"], [["t", "v"], 7], "abc", {"t": "v"}, 5, None]
    for k, tags in enumerate(shapes):
        try:
            ev = make_event("A", 1, 2000 + k, tags, "g", raw_tags=True)
        except Exception:
            continue
        label = "tags=%s" % json.dumps(tags)[:60]
        if roundtrip(sess, backend, ev, label, viol, cid, must_accept=False):
            accepted += 1
        n += 1
    return viol, n, accepted


def run_sidgrammar(case):
    _, backend, _, _, tier = case
    sess = seq.session(backend)
    viol = []
    cid = "%s|sidgrammar" % backend
    sess.reset()
    ev = make_event("A", 1, 999, [], "for sub-id checks")
    sess.submit(ev)
    n = 0
    for sid in SIDS:
        raws, closed = sess.query([{"ids": [ev["id"]]}], sub_id=sid, raw=True)
        n += 1
        label = "sid=%r" % sid[:20]
        ms = check_frames(raws, viol, cid, label, want_sid=sid)
        kinds = [m[0] for m in ms]
        if kinds.count("EOSE") != 1 and "NOTICE" not in kinds:
            viol.append({"case": cid, "clause": "frame-shape", "sig": label, "detail": "%s: no EOSE and no NOTICE: %r closed=%s" % (label, raws[:2], closed)})
        # live push under that id
        c = sess.cq
        if not (c.closed_by_relay is not None or c.task.done()):
            n0 = len(c.transcript)
            e7 = make_event("B", 7, 3000 + n, [], "live %d" % n)
            sess.w.send(c, json.dumps(["REQ", sid, {"ids": [e7["id"]]}], ensure_ascii=False), sess.HORIZON)
            sess.submit(e7)
            raws = [t[2] for t in c.transcript[n0:] if t[0] == "send"]
            ms = check_frames(raws, viol, cid, label + "|live", want_sid=sid)
            if [m[0] for m in ms].count("EVENT") != 1:
                viol.append({"case": cid, "clause": "frame-shape", "sig": label + "|live", "detail": "%s: live push missing/garbled: %r" % (label, raws[:3])})
            sess.w.send(c, json.dumps(["CLOSE", sid], ensure_ascii=False), sess.HORIZON)
    for sid in SID_NONSTR:
        raws, closed = sess.query([{"ids": [ev["id"]]}], sub_id=sid, raw=True)
        n += 1
        check_frames(raws, viol, cid, "sid(nonstr)=%r" % (sid,))
    return viol, n


def run_framekinds(case):
    """OK (accept / duplicate / invalid / rate limited), NOTICE, AUTH challenge, EOSE for invalid filters"""
    from ..harness import World

    _, backend, _, _, tier = case
    seq.close_all()
    viol = []
    cid = "%s|framekinds" % backend
    w = World(backend, config={"authentication": {"enabled": True, "actions": {"save": "a", "query": "a"}}, "subscription_limit": 1},
              rate_limits={"ip": {"EVENT": "3/s"}}, storage_options={"stats_interval": 1e15}, message_timeout=1e300)
    n = 0
    try:
        c = w.connect("c")
        w.run(1e6)
        ev = make_event("A", 1, 1000, [], 'q"uote\\')
        bad = dict(ev, sig=ev["sig"][:-1] + ("0" if ev["sig"][-1] != "0" else "1"))
        repl = make_event("A", 10002, 1001, [], "replaceable")
        repl_old = make_event("A", 10002, 999, [], "replaceable, older")
        prm = make_event("A", 30000, 1002, [["d", "x"]], "parameterized")
        dele = make_event("A", 5, 1003, [["e", "ab" * 32]], "")
        eph = make_event("A", 20001, 1004, [], "ephemeral")
        # every kind of acknowledgement twice (accepted, then as a duplicate / superseded / ephemeral again)
        for fr in (["EVENT", repl], ["EVENT", repl], ["EVENT", repl_old], ["EVENT", prm], ["EVENT", prm], ["EVENT", dele], ["EVENT", dele], ["EVENT", eph], ["EVENT", eph]):
            w.loop.advance(1.0)
            w.send("c", fr, 1e6)
            n += 1
        w.loop.advance(2.0)
        for fr in (["EVENT", ev], ["EVENT", ev], ["EVENT", bad], ["EVENT", ev], ["EVENT", ev], ["REQ", "a", {"kinds": [1]}],
                   ["REQ", "b", {"kinds": [1]}], ["REQ", "a", "notafilter"], ["REQ", "a", {"kinds": "x"}], ["CLOSE", "a"],
                   ["AUTH", {"id": "x"}], ["AUTH", "x"], ["EVENT", {"id": 'we"ird'}]):
            w.send("c", fr, 1e6)
            n += 1
        raws = c.sent()
        ms = check_frames(raws, viol, cid, "framekinds")
        kinds = {m[0] for m in ms}
        for k in ("AUTH", "OK", "NOTICE", "EOSE", "EVENT"):
            if k not in kinds:
                viol.append({"case": cid, "clause": "frame-kinds-exercised", "sig": k, "detail": "scenario produced no %s frame: %r" % (k, [r[:60] for r in raws])})
    finally:
        w.close()
    return viol, n


def run_echo(case):
    """client-chosen text in every position the relay may quote back in an OK or NOTICE message (NIP-42 relay / challenge tags of a
    correctly signed AUTH event, event ids, subscription ids of refused REQs, filter members, command names)"""
    from ..harness import World, CLOCK

    _, backend, _, _, tier = case
    seq.close_all()
    viol = []
    cid = "%s|echo" % backend
    w = World(backend, config={"authentication": {"enabled": True, "actions": {"save": "a", "query": "a"}, "relay_urls": ["ws://relay.test"]}},
              storage_options={"stats_interval": 1e15}, message_timeout=1e300)
    n = 0
    try:
        c = w.connect("c")
        w.run(1e6)
        first = [parse_strict(r) for r in c.sent()]
        challenge = first[0][1] if first and first[0][0] == "AUTH" else "none"
        ev = make_event("A", 1, 1000, [], "x")
        for h in SIDS + ["%s", "{0}", "{e}", "\ud800", "</script>", "\x1b[31m"]:
            frames_in = [
                ["AUTH", make_event("K1", 22242, int(CLOCK.now), [["relay", h], ["challenge", challenge]], "")],
                ["AUTH", make_event("K1", 22242, int(CLOCK.now), [["relay", "ws://relay.test"], ["challenge", h]], "")],
                ["AUTH", make_event("K1", 22242, int(CLOCK.now), [["relay", "ws://relay.test" + h], ["challenge", challenge + h]], h)],
                ["AUTH", {"id": h, "pubkey": h, "sig": h, "kind": 22242, "created_at": int(CLOCK.now), "tags": [["relay", h]], "content": h}],
                ["EVENT", dict(ev, id=h)], ["EVENT", dict(ev, pubkey=h)], ["EVENT", dict(ev, sig=h)], ["EVENT", {"id": h}],
                ["REQ", h, {"kinds": h}], ["REQ", h, {h: [h]}], ["REQ", h, h], ["REQ", h, {"ids": [h]}], ["REQ", h, {"#e": h}], ["CLOSE", h], [h, h],
                [h], ["AUTH", h], ["EVENT", h], ["REQ", h],
            ]
            for fr in frames_in:
                n0 = len(c.transcript)
                if c.closed_by_relay is not None:
                    break
                w.send("c", fr, 1e6)
                n += 1
                raws = [t[2] for t in c.transcript[n0:] if t[0] == "send"]
                check_frames(raws, viol, cid, "echo|%s|%s" % (json.dumps(h)[:24], json.dumps(fr)[:40]))
        if c.closed_by_relay is not None:
            viol.append({"case": cid, "clause": "frame-is-json", "sig": "echo|closed", "detail": "the relay closed the connection during the echo scenario: %r" % (c.closed_by_relay,)})
    finally:
        w.close()
    return viol, n


# ---------------------------------------------------------------------------------------------------
# Several connections at once: the same event serialised for several receivers (stored answers and live pushes interleaved) stays
# verbatim and every frame carries the receiver's own subscription id.
S_A = make_event("A", 1, 800, [["t", 'q"uote'], ["e", "ab" * 32, "wss://r"], ["p", PK["B"]]], 'first \\ "event" \u2028 \U0001f600')
S_B = make_event("B", 30000, 801, [["d"], ["t", ""]], "second event, bare d tag")
S_PRE = make_event("A", 1, 700, [["t", "x"]], "stored before")
S_SCRIPTS = {
    "two_subscribers": [("c1", ["REQ", 'su"b', {"kinds": [1, 30000]}]), ("c2", ["REQ", "\\", {"kinds": [1]}]), ("c3", ["EVENT", S_A]), ("c3", ["EVENT", S_B])],
    "subscribe_while_published": [("c3", ["EVENT", S_A]), ("c1", ["REQ", "a", {"kinds": [1]}]), ("c2", ["REQ", "b", {"authors": [PK["A"]]}]), ("c3", ["EVENT", S_B]),
                                  ("c1", ["REQ", "c", {"kinds": [30000]}])],
}


def _s_build(name, backend, policy):
    from ..explorer import Scenario

    def setup(w):
        f = w.connect("setup", "9.9.9.9")
        w.run(1e6)
        w.send("setup", ["EVENT", S_PRE], 1e6)
        f.drop()
        w.run(1e6)
        del w.conns["setup"]

    return Scenario("%s%s|%s" % (name, "@fair" if policy == "fair" else "", backend), backend, [("c1", "1.1.1.1"), ("c2", "2.2.2.2"), ("c3", "3.3.3.3")],
                    S_SCRIPTS[name], storage_options={"stats_interval": 1e15}, setup=setup, horizon=30.0, policy=policy)


def _s_judge(x, name, backend, viol, cid, sig):
    known = {e["id"]: e for e in (S_A, S_B, S_PRE)}
    own = {}
    for cn, fr in S_SCRIPTS[name]:
        if fr[0] == "REQ":
            own.setdefault(cn, set()).add(fr[1])
    for cn, c in x.world.conns.items():
        raws = [p for k, _, p in c.transcript if k == "send"]
        for m in check_frames(raws, viol, cid, sig + "|" + cn):
            if m[0] in ("EVENT", "EOSE") and m[1] not in own.get(cn, set()):
                viol.append({"case": cid, "clause": "sub-id-verbatim", "sig": sig + "|" + cn, "detail": "%s received a %s frame under %r, its subscription ids are %r" % (cn, m[0], m[1], sorted(own.get(cn, [])))})
            if m[0] == "EVENT":
                ev = m[2]
                orig = known.get(ev.get("id")) if isinstance(ev, dict) else None
                if orig is None or not same_json(ev, orig):
                    viol.append({"case": cid, "clause": "served-verbatim", "sig": sig + "|" + cn,
                                 "detail": "%s received an event that differs from the accepted one: %r" % (cn, diff(ev, orig) if orig else str(ev)[:80])})


from ..schedmode import SchedMode  # noqa: E402

SCHEDMODE = SchedMode(S_SCRIPTS, _s_build, _s_judge)


def run_case(case):
    if SCHEDMODE.is_case(case) and case[0] == "sched":
        return SCHEDMODE.run(case)
    mode = case[0]
    extra = {}
    if mode == "cp":
        viol, n = run_cp(case)
    elif mode == "sid":
        viol, n = run_sid(case)
    elif mode == "taggrammar":
        viol, n, acc = run_taggrammar(case)
        extra["tag_shapes_accepted_%s" % case[1]] = acc
    elif mode == "kindgrammar":
        viol, n, acc = run_kindgrammar(case)
        extra["special_kind_tag_shapes_accepted_%s" % case[1]] = acc
    elif mode == "sidgrammar":
        viol, n = run_sidgrammar(case)
    elif mode == "echo":
        viol, n = run_echo(case)
    else:
        viol, n = run_framekinds(case)
    extra["roundtrips_%s" % mode] = n
    cid = "%s|%s|%s|%s" % (mode, case[1], case[2], case[3][:1])
    return {"id": cid, "viol": viol, "outcome": None, "evals": max(n, 1), "nontrivial": n > 0, "desc": describe(case), "extra": extra,
            "sample": {"mode": mode, "backend": case[1], "pos": case[2], "roundtrips": n}}


def coverage(tier, agg):
    npk = len(select(tier, PACK))
    return {
        "rule": ("code points: %d of %d packets of 256 consecutive Unicode scalar values (thorough: all 1,112,064 scalar values) in content, tag value "
                "and tag name, each packet submitted as a signed event and read back through live push, stored REQ answer and HTTP /e/<id>; "
                "subscription ids: packets of 48 scalar values as the sub id of a REQ (EVENT + EOSE must carry it verbatim); tag grammar: %d JSON "
                "values at tag[0], tag[1], tag[2] plus empty tag / empty list ('if accepted'); kind grammar: %d special kinds (replaceable, deletion, "
                "ephemeral, parameterized, boundaries) x %d shapes of the tags the storage code interprets (d, e, a, p, expiration, delegation: bare, "
                "empty, repeated, non-string, malformed); sub-id grammar: %d strings + %d non-string values, "
                "stored and live; frame kinds: AUTH, OK true/duplicate/invalid/rate-limited, NOTICE, EOSE, EVENT; echo: hostile strings in every position the relay may "
                "quote back in OK / NOTICE text (relay and challenge tags of correctly signed AUTH events, ids, sub ids and filter members of refused REQs, command "
                "names). Oracle: stdlib json parse, "
                "NIP-01 frame shape, sub id equal, event field-for-field equal (type-exact) and still authentic. A failing packet is shrunk to "
                "single code points for the report." + SCHEDMODE.rule() + ": every frame parses, carries one of the receiver's own subscription ids and an event equal to the accepted one") % (npk, len(packets(PACK)), len(TAG_ITEMS), len(KIND_GRAMMAR), len(SPECIAL_TAGS), len(SIDS), len(SID_NONSTR)),
        "backends": ["sql", "kv"],
    }


def replay(desc):
    if desc.get("mode") == "sched":
        r = run_case(SCHEDMODE.from_desc(desc))
    else:
        r = run_case((desc["mode"], desc["backend"], desc["pos"], tuple(desc["packets"]), desc.get("tier", "quick")))
    for v in r["viol"][:30]:
        print(v["clause"], v["detail"][:500])
    return r["viol"]
