"""C11 - query answers are unaffected by unrelated data and monotone in the filter.
Metamorphic relations between implementation answers only (no reference answer):
  (i)   S -> S+{x}, x not matching f (not even on a window bound)  =>  ans(f,S+{x}) == ans(f,S)
  (ii)  f' = f plus one more condition / narrower window            =>  ans(f',S) subset of ans(f,S)
  (iii) multi-value field [v1..vn] (no limit truncating)             =>  ans(f,S) == union ans(f[vi],S)
Phase 1 tabulates ans(f,S) for every store (subset of U1) and every filter of a language closed under
'drop one key' and 'split a multi-value field' through the real REQ path; phase 2 evaluates the
relations on the table."""
import os
import json
import array
import multiprocessing as mp

from .. import seq, qtable as Q
from ..universe import PK

ID = "C11"
LEVEL = "model_checking"
ASSUMPTIONS = ["real nostr_relay code imported from /repo's working tree, driven through web.start_client / the storage API; SQLite runs for real behind a same-thread connection shim (bound to real aiosqlite by C06's conformance cases); LMDB is an in-memory double (bound to the real liblmdb by C10's conformance cases), msgpack is pip's pure-python codec; asyncio runs on a controlled virtual-time loop; the reference matcher is used only to decide which (filter, event) pairs are unrelated, never what an answer should be"]
CHUNK = 8
DETERMINISM_SELFTEST = False  # phase 2 is pure table lookup; phase 1 repeats its first store (see _tabulate)

_T = {"tier": None}


def language(tier, uname="U1"):
    base = []
    fo = Q.field_options() if uname == "U1" else Q.field_options_U2()
    keys = list(fo)
    wins = [{}, {"since": 10}, {"since": 20}, {"since": 21}, {"until": 20}, {"until": 19}, {"until": 30}, {"since": 11, "until": 29},
            {"since": 20, "until": 20}, {"since": Q.T9}, {"until": Q.T9}, {"until": 0}]
    if uname == "U2":
        wins = [{}, {"since": 7}, {"since": 10}, {"since": 15}, {"until": 7}, {"until": 25}, {"since": 4}, {"since": 21}, {"since": 7, "until": 25}, {"until": 0}]
    if tier == "quick":
        wins = wins[:6] + ([{"since": 20, "until": 20}, {"since": 11, "until": 29}, {"until": 0}] if uname == "U1" else [{"since": 7, "until": 25}, {"until": 0}])
    for w in wins:
        if w:
            base.append(dict(w))
    for k in keys:
        for v in fo[k]:
            for w in wins:
                f = {k: v}
                f.update(w)
                base.append(f)
    import itertools

    for k1, k2 in itertools.combinations(keys, 2):
        for v1 in fo[k1][: (3 if tier == "quick" else 5)]:
            for v2 in fo[k2][: (3 if tier == "quick" else 5)]:
                for w in wins[: (2 if tier == "quick" else 4)]:
                    f = {k1: v1, k2: v2}
                    f.update(w)
                    base.append(f)
    # closure under 'drop one key' and 'split multi-value'
    seen = {}
    work = list(base)
    while work:
        f = work.pop()
        k = Q.fkey([f])
        if k in seen:
            continue
        if not f or all(x == "limit" for x in f):
            continue
        seen[k] = f
        for key in list(f):
            g = {a: b for a, b in f.items() if a != key}
            if g:
                work.append(g)
            if isinstance(f[key], list) and len(f[key]) > 1:
                for v in f[key]:
                    h = dict(f)
                    h[key] = [v]
                    work.append(h)
    return [seen[k] for k in sorted(seen)]


def _tab_init(tier):
    from .. import env

    env.boot()
    _T["langs"] = {u: language(tier, u) for u in ("U1", "U2")}


def _tab_one(task):
    backend, idx, S, uname = task
    uni = Q.UNIVERSES[uname]()
    names = list(uni)
    bit = {uni[n]["id"]: i for i, n in enumerate(names)}
    sess = seq.session(backend)

    def compute():
        Q.build_store(sess, S, uni)
        out = array.array("H")
        for f in _T["langs"][uname]:
            evs, eose, notices, closed, others = Q.answer(sess, [f])
            m = 0
            for e in evs:
                m |= 1 << bit.get(e.get("id"), 15)
            if eose != 1 or closed:
                m |= 1 << 14
            out.append(m)
        return out

    out = compute()
    if idx == 0 or idx == 37:
        if compute() != out:
            return backend, idx, None, uname
    return backend, idx, out.tobytes(), uname


def _tabulate(tier):
    tasks = []
    tables = {}
    storesets = {}
    for uname in ("U1", "U2"):
        names = Q.members(tier, uname)
        stores = list(Q.subsets(names))
        storesets[uname] = stores
        tables[uname] = {"sql": [None] * len(stores), "kv": [None] * len(stores)}
        tasks += [(b, i, S, uname) for b in ("sql", "kv") for i, S in enumerate(stores)]
    ctx = mp.get_context("fork")
    nproc = int(os.environ.get("NRMC_PROCS", "16"))
    with ctx.Pool(nproc, initializer=_tab_init, initargs=(tier,)) as pool:
        for backend, idx, raw, uname in pool.imap_unordered(_tab_one, tasks, chunksize=1):
            if raw is None:
                from ..env import HarnessError

                raise HarnessError("C11 phase 1: determinism self-test failed for store %d on %s" % (idx, backend))
            a = array.array("H")
            a.frombytes(raw)
            tables[uname][backend][idx] = a
    return storesets, tables


def _relations(lang):
    fidx = {Q.fkey([f]): i for i, f in enumerate(lang)}
    parents = []   # (child, parent): child has one more key
    unions = []    # (multi, [singles])
    for i, f in enumerate(lang):
        for key in f:
            g = {a: b for a, b in f.items() if a != key}
            if g and Q.fkey([g]) in fidx:
                parents.append((i, fidx[Q.fkey([g])]))
            if isinstance(f[key], list) and len(f[key]) > 1:
                parts = []
                for v in f[key]:
                    h = dict(f)
                    h[key] = [v]
                    parts.append(fidx[Q.fkey([h])])
                unions.append((i, parts))
    bybase = {}
    for i, f in enumerate(lang):
        b = Q.fkey([{a: v for a, v in f.items() if a not in ("since", "until")}])
        bybase.setdefault(b, []).append(i)
    narrower = []
    for b, idxs in bybase.items():
        for i in idxs:
            for j in idxs:
                if i == j:
                    continue
                fi, fj = lang[i], lang[j]
                si, sj = fi.get("since", 0), fj.get("since", 0)
                ui, uj = fi.get("until", 2 ** 40), fj.get("until", 2 ** 40)
                if si >= sj and ui <= uj and (si, ui) != (sj, uj):
                    narrower.append((i, j))  # ans(i) subset of ans(j)
    return parents, unions, narrower


def cases(tier):
    import time

    t0 = time.time()
    storesets, tables = _tabulate(tier)
    _T.update(tier=tier, phase1_s=time.time() - t0, U={})
    out = []
    for uname in ("U1", "U2"):
        lang = language(tier, uname)
        parents, unions, narrower = _relations(lang)
        stores = storesets[uname]
        _T["U"][uname] = dict(lang=lang, stores=stores, table=tables[uname], index={S: i for i, S in enumerate(stores)},
                              parents=parents, unions=unions, narrower=narrower)
        out += [(b, i, uname) for b in ("sql", "kv") for i in range(len(stores))]
    return out


def describe(case):
    uname = case[2] if len(case) > 2 else "U1"
    U = _T.get("U", {}).get(uname)
    return {"backend": case[0], "store": list(U["stores"][case[1]]) if U else case[1], "tier": _T.get("tier"), "universe": uname}


def run_case(case):
    backend, si = case[:2]
    uname = case[2] if len(case) > 2 else "U1"
    TU = _T["U"][uname]
    lang = TU["lang"]
    stores = TU["stores"]
    table = TU["table"][backend]
    S = stores[si]
    row = table[si]
    uni = Q.UNIVERSES[uname]()
    names = list(uni)
    viol = []
    cid = "%s|%s|S=%s" % (backend, uname, ",".join(S))
    rel = 0

    def show(mask):
        return [names[i] if i < len(names) else "bit%d" % i for i in range(16) if mask >> i & 1]

    # (i) unrelated data: compare with every S - {x}
    for x in S:
        Sm = tuple(n for n in S if n != x)
        rowm = table[TU["index"][Sm]]
        ex = uni[x]
        for fi, f in enumerate(lang):
            if Q.loose_matches(f, ex):
                continue
            rel += 1
            if row[fi] != rowm[fi]:
                viol.append({"case": cid, "clause": "unrelated-data", "sig": "%s|%s" % (x, Q.fkey([f])),
                             "detail": "adding non-matching %s changes the answer of %s from %s to %s | store={%s}" % (
                                 x, Q.fkey([f]), show(rowm[fi]), show(row[fi]), ",".join(S))})
    # (ii) monotone in the filter
    for child, parent in TU["parents"]:
        rel += 1
        if row[child] & ~row[parent]:
            viol.append({"case": cid, "clause": "more-conditions-fewer-results", "sig": "%s<%s" % (Q.fkey([lang[child]]), Q.fkey([lang[parent]])),
                         "detail": "%s returns %s which %s does not return (%s) | store={%s}" % (
                             Q.fkey([lang[child]]), show(row[child] & ~row[parent]), Q.fkey([lang[parent]]), show(row[parent]), ",".join(S))})
    for i, j in TU["narrower"]:
        rel += 1
        if row[i] & ~row[j]:
            viol.append({"case": cid, "clause": "narrower-window-fewer-results", "sig": "%s<%s" % (Q.fkey([lang[i]]), Q.fkey([lang[j]])),
                         "detail": "%s returns %s which the wider %s does not | store={%s}" % (
                             Q.fkey([lang[i]]), show(row[i] & ~row[j]), Q.fkey([lang[j]]), ",".join(S))})
    # (iii) union of single values
    for multi, parts in TU["unions"]:
        rel += 1
        u = 0
        for p in parts:
            u |= row[p]
        if row[multi] != u:
            viol.append({"case": cid, "clause": "multi-value-is-union", "sig": Q.fkey([lang[multi]]),
                         "detail": "%s returns %s but the union of its single values returns %s | store={%s}" % (
                             Q.fkey([lang[multi]]), show(row[multi]), show(u), ",".join(S))})
    nonempty = sum(1 for m in row if m)
    return {"id": cid, "viol": viol, "outcome": None, "evals": rel, "nontrivial": nonempty > 0, "desc": describe(case),
            "extra": {"relation_instances": rel, "nonempty_answers": nonempty},
            "sample": {"store": list(S), "backend": backend, "relation_instances": rel, "nonempty_answers": nonempty}}


def coverage(tier, agg):
    per = {}
    total = 0
    for uname, TU in _T["U"].items():
        n_st = len(TU["stores"])
        per[uname] = {"stores": n_st, "filters": len(TU["lang"]), "child_parent_pairs": len(TU["parents"]), "narrower_wider_pairs": len(TU["narrower"]),
                      "multi_value_filters": len(TU["unions"])}
        total += 2 * n_st * len(TU["lang"])
    return {
        "rule": "phase 1: ans(f,S) tabulated through the real REQ path for every subset S of each universe (U1: regular collision universe; U2: "
                "byte-order neighbours) x every single filter of a language closed under dropping one key and splitting a multi-value field, on both "
                "backends; phase 2: relations (i) every edge S-{x} -> S with x not matching f even loosely, (ii) child/parent and narrower/wider "
                "filter pairs, (iii) multi-value filters vs the union of their single values; evaluations = relation instances checked; non-trivial "
                "case = store with at least one non-empty answer",
        "per_universe": per,
        "phase1_req_evaluations": total,
        "phase1_wall_s": round(_T.get("phase1_s", 0), 1),
        "backends": ["sql", "kv"],
    }


def replay(desc):
    from .. import env

    tier = desc.get("tier") or "quick"
    cases(tier)
    uname = desc.get("universe", "U1")
    si = _T["U"][uname]["index"][tuple(desc["store"])]
    r = run_case((desc["backend"], si, uname))
    for v in r["viol"][:20]:
        print(v["clause"], v["detail"])
    return r["viol"]
