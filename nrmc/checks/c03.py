"""C03 - only authentic events are stored, acknowledged or forwarded.
Bounded-exhaustive neighbourhood of valid events: every single mutation operator and every pair of
operators on distinct fields, on both admission paths (websocket EVENT, direct add_event = bulk load /
service events) and both backends, with a catch-all subscriber."""
import json
import copy
import itertools

from .. import seq, store, refmodel as R
from ..universe import make_event, delegation_tag, PK, SK, compute_id, _sign

ID = "C03"
LEVEL = "model_checking"
ASSUMPTIONS = ["real nostr_relay code imported from /repo's working tree, driven through web.start_client / the storage API; SQLite runs for real behind a same-thread connection shim (bound to real aiosqlite by C06's conformance cases); LMDB is an in-memory double (bound to the real liblmdb by C10's conformance cases), msgpack is pip's pure-python codec; asyncio runs on a controlled virtual-time loop; default validator list (is_signed) as shipped; the strict reference verifies BIP-340 with coincurve and hashes the "
               "stdlib-JSON canonical serialisation of the fields exactly as submitted (a kind of \"1\" or 1.0 is not the integer 1)"]
CHUNK = 1


def bases():
    b = {}
    b["plain"] = make_event("A", 1, 1000, [], "hello")
    b["tagged"] = make_event("A", 1, 1001, [["e", "ab" * 32], ["p", PK["B"]], ["t", "x"]], "with tags")
    b["unicode"] = make_event("B", 1, 1002, [["t", "é"]], "héllo \U0001f600 \"q\" \\ \n end")
    b["delegated"] = make_event("B", 1, 1003, [delegation_tag("A", "B", "kind=1")], "delegated")
    b["replaceable"] = make_event("A", 10002, 1004, [["r", "wss://x"]], "")
    b["deletion"] = make_event("A", 5, 1005, [["e", "cd" * 32]], "")
    b["param_bare_d"] = make_event("A", 30000, 1006, [["t", "x"], ["d"]], "bare d")
    b["ephemeral"] = make_event("A", 20001, 1008, [["t", "e"]], "ephemeral: broadcast, not stored on LMDB")
    b["by_service_key"] = make_event("S", 1, 1007, [["t", "svc"]], "signed by the relay's own service key")
    return b


_B = None


def B():
    global _B
    if _B is None:
        _B = bases()
    return _B


def resign(ev, sk_name):
    """recompute id and signature for the (mutated) fields - used to build well-formed-but-wrong variants"""
    e = dict(ev)
    e["id"] = compute_id(e["pubkey"], e["created_at"], e["kind"], e["tags"], e["content"])
    e["sig"] = _sign(SK[sk_name], e["id"])
    return e


def operators():
    """name -> (field, function(event_dict, bases) -> mutated dict or None)"""
    ops = {}

    def op(name, field):
        def deco(fn):
            ops[name] = (field, fn)
            return fn
        return deco

    def setf(field, value):
        def fn(e, b):
            if field not in e:
                return None
            e = copy.deepcopy(e)
            e[field] = value(e[field], e, b) if callable(value) else value
            return e
        return fn

    def flip(s, pos):
        c = s[pos]
        r = "0" if c != "0" else "1"
        return s[:pos] + r + s[pos + 1:]

    for f in ("id", "pubkey", "sig"):
        ops["%s_flip_first" % f] = (f, setf(f, lambda v, e, b: flip(v, 0)))
        ops["%s_flip_mid" % f] = (f, setf(f, lambda v, e, b: flip(v, len(v) // 2)))
        ops["%s_flip_last" % f] = (f, setf(f, lambda v, e, b: flip(v, len(v) - 1)))
        ops["%s_upper" % f] = (f, setf(f, lambda v, e, b: v.upper()))
        ops["%s_mixed" % f] = (f, setf(f, lambda v, e, b: "".join(c.upper() if i % 2 else c for i, c in enumerate(v))))
        ops["%s_trunc" % f] = (f, setf(f, lambda v, e, b: v[:-2]))
        ops["%s_extend" % f] = (f, setf(f, lambda v, e, b: v + "00"))
        ops["%s_nonhex" % f] = (f, setf(f, lambda v, e, b: "zz" + v[2:]))
        # whitespace that bytes.fromhex() skips and that a '$'-anchored pattern lets through
        ops["%s_trailing_nl" % f] = (f, setf(f, lambda v, e, b: v + "\n"))
        ops["%s_trailing_space" % f] = (f, setf(f, lambda v, e, b: v + " "))
        ops["%s_leading_space" % f] = (f, setf(f, lambda v, e, b: " " + v))
        ops["%s_inner_space" % f] = (f, setf(f, lambda v, e, b: v[:32] + " " + v[32:]))
        ops["%s_crlf" % f] = (f, setf(f, lambda v, e, b: v + "\r\n"))
        ops["%s_empty" % f] = (f, setf(f, ""))
        ops["%s_null" % f] = (f, setf(f, None))
        ops["%s_int" % f] = (f, setf(f, 5))
    ops["id_other_event"] = ("id", setf("id", lambda v, e, b: b["plain"]["id"] if v != b["plain"]["id"] else b["tagged"]["id"]))
    ops["id_abab"] = ("id", setf("id", "ab" * 32))
    ops["id_zero"] = ("id", setf("id", "00" * 32))
    ops["sig_other_event"] = ("sig", setf("sig", lambda v, e, b: b["plain"]["sig"] if v != b["plain"]["sig"] else b["tagged"]["sig"]))
    ops["pubkey_other"] = ("pubkey", setf("pubkey", lambda v, e, b: PK["C"]))
    ops["pubkey_service"] = ("pubkey", setf("pubkey", lambda v, e, b: PK["S"] if v != PK["S"] else PK["A"]))  # claims to be the relay itself
    for f in ("created_at", "kind"):
        ops["%s_plus1" % f] = (f, setf(f, lambda v, e, b: v + 1))
        ops["%s_minus1" % f] = (f, setf(f, lambda v, e, b: v - 1))
        ops["%s_str" % f] = (f, setf(f, lambda v, e, b: str(v)))
        ops["%s_float" % f] = (f, setf(f, lambda v, e, b: float(v)))
        ops["%s_float9" % f] = (f, setf(f, lambda v, e, b: v + 0.9))
        ops["%s_bool" % f] = (f, setf(f, True))
        ops["%s_neg" % f] = (f, setf(f, lambda v, e, b: -v if v else -1))
        ops["%s_2p32" % f] = (f, setf(f, 2 ** 32))
        ops["%s_2p64" % f] = (f, setf(f, 2 ** 64))
        ops["%s_null" % f] = (f, setf(f, None))
        ops["%s_zero" % f] = (f, setf(f, 0))
        ops["%s_list" % f] = (f, setf(f, lambda v, e, b: [v]))
    ops["content_changed"] = ("content", setf("content", lambda v, e, b: v + "!"))
    ops["content_nonstr"] = ("content", setf("content", 5))
    ops["content_null"] = ("content", setf("content", None))
    ops["tags_added"] = ("tags", setf("tags", lambda v, e, b: v + [["t", "added"]]))
    ops["tags_removed"] = ("tags", setf("tags", lambda v, e, b: v[:-1] if v else [["x"]]))
    ops["tags_reordered"] = ("tags", setf("tags", lambda v, e, b: list(reversed(v)) if len(v) > 1 else v + [["q", "r"]]))
    ops["tags_elem_int"] = ("tags", setf("tags", lambda v, e, b: [[t[0], 5] + t[2:] for t in v] if v else [["t", 5]]))
    ops["tags_null"] = ("tags", setf("tags", None))
    ops["tags_str"] = ("tags", setf("tags", "[]"))
    ops["tags_empty_tag"] = ("tags", setf("tags", lambda v, e, b: v + [[]]))
    # delegation forgeries (tags field)
    ops["deleg_forged_sig"] = ("tags", setf("tags", lambda v, e, b: v + [["delegation", PK["C"], "kind=1", "00" * 64]]))
    ops["deleg_other_delegatee"] = ("tags", setf("tags", lambda v, e, b: v + [delegation_tag("A", "C", "kind=1")]))
    ops["deleg_wrong_conditions"] = ("tags", setf("tags", lambda v, e, b: v + [delegation_tag("C", "B", "kind=1")[:2] + ["kind=2"] + delegation_tag("C", "B", "kind=1")[3:]]))
    ops["deleg_truncated"] = ("tags", setf("tags", lambda v, e, b: v + [["delegation", PK["C"], "kind=1"]]))
    ops["missing_sig"] = ("sig!", lambda e, b: {k: v for k, v in e.items() if k != "sig"})
    ops["missing_id"] = ("id!", lambda e, b: {k: v for k, v in e.items() if k != "id"})
    ops["extra_field"] = ("extra", lambda e, b: dict(e, extra="x"))
    return ops


# "re-signed" variants: a structurally wrong event whose id and sig are consistent with its wrong fields
def resigned_variants():
    out = {}
    b = B()
    e = copy.deepcopy(b["delegated"])
    e["tags"] = [["delegation", PK["C"], "kind=1", "00" * 64]]
    out["resigned_forged_delegation"] = resign(e, "B")
    e = copy.deepcopy(b["delegated"])
    e["tags"] = [delegation_tag("A", "C", "kind=1")]  # token issued to C, presented by B
    out["resigned_transplanted_delegation"] = resign(e, "B")
    e = copy.deepcopy(b["delegated"])
    t = delegation_tag("A", "B", "kind=1")
    e["tags"] = [[t[0], t[1], "kind=2", t[3]]]
    out["resigned_delegation_wrong_conditions"] = resign(e, "B")
    e = copy.deepcopy(b["delegated"])
    e["tags"] = [["delegation", PK["A"], "kind=1"]]
    out["resigned_delegation_3_items"] = resign(e, "B")
    e = copy.deepcopy(b["delegated"])
    e["tags"] = [delegation_tag("A", "B", "kind=1"), ["delegation", PK["C"], "kind=1", "11" * 64]]
    out["resigned_second_delegation_forged"] = resign(e, "B")
    e = copy.deepcopy(b["plain"])
    e["kind"] = "1"
    out["resigned_kind_str"] = resign(e, "A")  # id hashes the string "1": authentic only if served with the string
    e = copy.deepcopy(b["plain"])
    out["signed_by_other_key"] = dict(e, sig=_sign(SK["B"], e["id"]))
    e = copy.deepcopy(b["plain"])
    e["pubkey"] = PK["A"].upper()
    out["resigned_upper_pubkey"] = resign(e, "A")
    # well-formed id (the hash of the fields as sent) with a signature field that only fails deep inside verification
    for nm, tags in (("empty_tag", [[]]), ("nonlist_tag", ["x"]), ("bare_delegation", [["delegation"]]), ("delegation_nonstr", [["delegation", 1, 2, 3]]),
                     ("delegation_5_items", [delegation_tag("A", "B", "kind=1") + ["x"]]), ("string_tags", ["delegation", "de"]), ("dict_tag", [{"t": "x"}])):
        e = copy.deepcopy(b["plain"])
        e["tags"] = tags
        try:
            good = resign(e, "A")
        except Exception:
            continue
        out["resigned_%s_sig_nonhex" % nm] = dict(good, sig="zz" * 64)
        out["resigned_%s_sig_other" % nm] = dict(good, sig=b["plain"]["sig"])
        if nm in ("bare_delegation", "delegation_nonstr", "delegation_5_items", "string_tags", "nonlist_tag", "dict_tag"):
            out["resigned_%s" % nm] = good
    # claims the relay's service pubkey: consistent id, signature by somebody else / arbitrary hex / of another event
    for nm, kind in (("note", 1), ("ephemeral", 20001), ("role_assignment", 31494)):
        e = copy.deepcopy(b["plain"])
        e["pubkey"] = PK["S"]
        e["kind"] = kind
        e["tags"] = [["d", "auth:" + PK["C"]]]
        e["content"] = "rw"
        good = resign(e, "S")
        out["service_claim_%s_sig_by_other" % nm] = dict(good, sig=_sign(SK["C"], good["id"]))
        out["service_claim_%s_sig_arbitrary" % nm] = dict(good, sig="ab" * 64)
        out["service_claim_%s_id_arbitrary" % nm] = dict(good, id="cd" * 32)
    # created_at 0 (which the event library silently replaces by the relay's clock), id and signature computed over the clock's second:
    # the object as sent does not hash to its id
    from ..env import CLOCK

    e = copy.deepcopy(b["plain"])
    e["created_at"] = int(CLOCK.now)
    good = resign(e, "A")
    out["created_at_0_hashed_over_now"] = dict(good, created_at=0)
    out["created_at_false_hashed_over_now"] = dict(good, created_at=False)
    e = copy.deepcopy(b["plain"])
    e["content"] = "other"
    out["resigned_sig_nonhex_lower"] = dict(resign(e, "A"), sig="gh" * 64)
    return out


_OPS = None


def OPS():
    global _OPS
    if _OPS is None:
        _OPS = operators()
    return _OPS


def mutation_ids(tier):
    ops = OPS()
    names = sorted(ops)
    singles = [(n,) for n in names]
    pairs = []
    step = 1 if tier == "thorough" else 5
    allpairs = [(a, b) for a, b in itertools.combinations(names, 2) if ops[a][0] != ops[b][0]]
    pairs = allpairs[::step]
    return [()] + singles + pairs


def apply_ops(base, opnames):
    e = copy.deepcopy(base)
    for n in opnames:
        e = OPS()[n][1](e, B())
        if e is None:
            return None
    return e


BLOCK = 60
LOAD_BLOCK = 120


def cases(tier):
    out = []
    muts = mutation_ids(tier)
    bnames = list(B())
    for backend in ("sql", "kv"):
        for path in ("ws", "direct"):
            for bn in bnames:
                for lo in range(0, len(muts), BLOCK):
                    out.append((backend, path, bn, lo, lo + BLOCK, tier))
            out.append((backend, path, "__resigned__", 0, 0, tier))
        for bn in bnames:
            out.append((backend, "ws", "__primed__" + bn, 0, 0, tier))
        # the bulk loader itself (`nostr-relay load`, cli.load): one input file per block, with and without a `validators` entry in the
        # storage section of the configuration
        for vk in ("load+vkey", "load-vkey"):
            for bn in bnames:
                for lo in range(0, len(muts), LOAD_BLOCK):
                    out.append((backend, vk, bn, lo, lo + LOAD_BLOCK, tier))
            out.append((backend, vk, "__resigned__", 0, 0, tier))
    out += SCHEDMODE.cases(tier)
    return out


def describe(case):
    if case[0] == "sched":
        return SCHEDMODE.describe(case)
    return {"backend": case[0], "path": case[1], "base": case[2], "lo": case[3], "hi": case[4], "tier": case[5]}


_PRIMER = []


def primer():
    if not _PRIMER:
        _PRIMER.append(make_event("C", 1, 990, [], "a genuine event accepted just before on the same connection"))
    return _PRIMER[0]


def check_one(sess, backend, path, name, ev, viol, cid, primed=False):
    sess.reset()
    if primed:
        # the previous EVENT on the same connection was genuine and acknowledged true
        r = sess.submit(primer() if primed is True else primed)
        if not (r["ok"] and r["ok"][0][2] is True):
            from ..env import HarnessError

            raise HarnessError("C03: the primer event was not accepted: %r" % (r["ok"],))
    ok, _ = R.authentic(ev)
    if path == "ws":
        try:
            frame = json.dumps(["EVENT", ev], ensure_ascii=False)
        except (TypeError, ValueError):
            return None
        r = sess.submit(ev, raw_frame=frame)
        acked = bool(r["ok"]) and r["ok"][0][2] is True
        pushed = r["pushed"]
    else:
        s0 = len(sess.cs.transcript)
        acked, reason = sess.add_direct(ev)
        pushed = []
        for kind, _, text in sess.cs.transcript[s0:]:
            if kind == "send":
                try:
                    m = json.loads(text)
                except ValueError:
                    pushed.append({"_unparseable": text})
                    continue
                if m[0] == "EVENT":
                    pushed.append(m[2])
    if acked and not ok:
        viol.append({"case": cid, "clause": "ack-only-authentic", "sig": name,
                     "detail": "%s acknowledged/accepted a submission that is not authentic (%s): %s" % (path, R.authentic(ev)[1], name)})
    for p in pushed:
        if "_unparseable" in p:
            continue
        if not R.authentic(p)[0]:
            viol.append({"case": cid, "clause": "push-only-authentic", "sig": name,
                         "detail": "pushed event is not authentic (%s) after submitting %s" % (R.authentic(p)[1], name)})
    for i, se in store.decode_store(backend, sess.dump()).items():
        a, why = R.authentic(se)
        if not a:
            viol.append({"case": cid, "clause": "store-only-authentic", "sig": name,
                         "detail": "stored record %s is not authentic (%s) after submitting %s" % (i[:8], why, name)})
    if ok and not acked and "extra_field" not in name:  # unknown extra members: NIP-01 is silent, either way
        viol.append({"case": cid, "clause": "authentic-base-accepted", "sig": name,
                     "detail": "authentic submission %s was refused (non-vacuity of the neighbourhood)" % name})
    return acked


# ---------------------------------------------------------------------------------------------------
# Two connections at once (SCHED): a forged copy and the genuine event carrying the same id are in flight together.
from ..schedmode import SchedMode  # noqa: E402

S_GEN = make_event("A", 1, 1100, [["t", "race"]], "genuine")
S_FORGED_SIG = dict(S_GEN, sig=S_GEN["sig"][:-2] + ("00" if S_GEN["sig"][-2:] != "00" else "01"))
S_FORGED_CONTENT = dict(S_GEN, content="forged: same id and sig, other content")
S_SCRIPTS = {
    "forged_sig_then_genuine": [("c1", ["REQ", "x", {"kinds": [1]}]), ("c2", ["EVENT", S_FORGED_SIG]), ("c3", ["EVENT", S_GEN])],
    "genuine_then_forged_content": [("c1", ["REQ", "x", {"kinds": [1]}]), ("c2", ["EVENT", S_GEN]), ("c3", ["EVENT", S_FORGED_CONTENT])],
    "forged_content_then_genuine": [("c1", ["REQ", "x", {"kinds": [1]}]), ("c2", ["EVENT", S_FORGED_CONTENT]), ("c3", ["EVENT", S_GEN])],
}


def _s_build(name, backend, policy):
    from ..explorer import Scenario

    return Scenario("%s%s|%s" % (name, "@fair" if policy == "fair" else "", backend), backend, [("c1", "1.1.1.1"), ("c2", "2.2.2.2"), ("c3", "3.3.3.3")],
                    S_SCRIPTS[name], storage_options={"stats_interval": 1e15}, horizon=30.0, policy=policy)


def _s_judge(x, name, backend, viol, cid, sig):
    w = x.world
    for cn, fr in S_SCRIPTS[name]:
        if fr[0] != "EVENT":
            continue
        ev = fr[1]
        if R.authentic(ev)[0]:
            continue
        for k, _, p in w.conns[cn].transcript:
            if k == "send" and p.startswith('["OK"'):
                m = json.loads(p)
                if m[2] is True:
                    viol.append({"case": cid, "clause": "ack-only-authentic", "sig": sig + "|" + cn,
                                 "detail": "the forged copy (%s) was acknowledged true while the genuine event was in flight on another connection" % R.authentic(ev)[1]})
    for k, _, p in w.conns["c1"].transcript:
        if k == "send" and p.startswith('["EVENT"'):
            pe = json.loads(p)[2]
            if not R.authentic(pe)[0]:
                viol.append({"case": cid, "clause": "push-only-authentic", "sig": sig, "detail": "pushed event is not authentic (%s)" % R.authentic(pe)[1]})
    for i, se in store.decode_store(backend, w.dump()).items():
        if not R.authentic(se)[0]:
            viol.append({"case": cid, "clause": "store-only-authentic", "sig": sig, "detail": "stored record %s is not authentic (%s)" % (i[:8], R.authentic(se)[1])})


SCHEDMODE = SchedMode(S_SCRIPTS, _s_build, _s_judge)


def run_load_case(case):
    """One run of the real loader command over a file: every forged line first, the genuine base event last (a forged line that got in
    is then a stored record that does not verify, rather than a duplicate of the genuine one)."""
    import re
    from ..harness import World

    backend, path, bn, lo, hi, tier = case
    cid = "%s|%s" % (backend, path)
    todo = []
    if bn == "__resigned__":
        todo = list(resigned_variants().items())
    else:
        for m in mutation_ids(tier)[lo:hi]:
            if not m:
                continue
            ev = apply_ops(B()[bn], m)
            if ev is not None:
                todo.append(("%s|mut=%s" % (bn, "+".join(m)), ev))
        todo.append(("%s|mut=none" % bn, B()[bn]))
    viol = []
    stats = {"runs": 0, "gave_up": 0, "added": 0}

    def go(part):
        """one loader run over `part` (list of (line, authentic id or None)); a loader that gives up on a line (it only expects
        StorageError) hides the lines after it: the file is then split and both halves are loaded into fresh stores"""
        import gc

        w = World(backend, storage_options={"stats_interval": 1e15})
        crashed = None
        try:
            try:
                printed = w.cli_load([p[0] for p in part], validators_key=(path == "load+vkey"))
            except Exception as e:
                printed = ""
                crashed = "%s: %s" % (type(e).__name__, e)
            stats["runs"] += 1
            m = re.search(r"^total: (\d+)$", printed, re.M)
            total = int(m.group(1)) if m else None
            good = {i for _, i, _ in part if i is not None}
            required = {i for _, i, opt in part if i is not None and not opt}
            for i, se in store.decode_store(backend, w.dump()).items():
                a, why = R.authentic(se)
                if not a:
                    viol.append({"case": cid, "clause": "store-only-authentic", "sig": "load|" + bn,
                                 "detail": "after `nostr-relay load` of %d lines (%s, block %d) the stored record %s is not authentic (%s)" % (len(part), bn, lo, i[:8], why)})
            if total is not None and total > len(good):
                viol.append({"case": cid, "clause": "ack-only-authentic", "sig": "load|" + bn,
                             "detail": "the loader counted %d added events but only %d lines of the file (%s, block %d) are authentic" % (total, len(good), bn, lo)})
            if total is not None and total < len(required):
                viol.append({"case": cid, "clause": "authentic-base-accepted", "sig": "load|" + bn,
                             "detail": "the loader added %d events but %d distinct authentic events are in the file (%s, block %d) (non-vacuity)" % (total, len(required), bn, lo)})
            stats["added"] += total or 0
        finally:
            w.close()
            # a loader that gave up leaves frames, tasks and storage objects in reference cycles: collect them here, not at a
            # moment the allocator chooses inside a later case
            gc.collect()
        if crashed is not None:
            stats["gave_up"] += 1
            if len(part) > 1:
                h = len(part) // 2
                go(part[:h])
                go(part[h:])

    pairs = []
    for i, (name, ev) in enumerate(todo):
        try:
            line = json.dumps(ev if i % 2 else ["EVENT", ev], ensure_ascii=False)  # both line shapes the loader accepts
        except (TypeError, ValueError):
            continue
        # unknown extra members: NIP-01 is silent, refused or loaded either way
        pairs.append((line, ev["id"] if R.authentic(ev)[0] else None, "extra_field" in name))
    lines = [p[0] for p in pairs]
    go(pairs)
    total, crashed = stats["added"], stats["gave_up"]
    return {"id": "%s|%s|%s|%d" % (backend, path, bn, lo), "viol": viol, "outcome": None, "evals": max(len(lines), 1), "nontrivial": bool(lines),
            "desc": describe(case), "extra": {"submissions": len(lines), "accepted": total or 0},
            "sample": {"backend": backend, "path": path, "base": bn, "submissions": len(lines), "accepted": total, "loader_runs": stats["runs"], "loader_gave_up": crashed}}


def run_case(case):
    if case[0] == "sched":
        return SCHEDMODE.run(case)
    if case[1].startswith("load"):
        return run_load_case(case)
    backend, path, bn, lo, hi, tier = case
    sess = seq.session(backend)
    viol = []
    cid = "%s|%s" % (backend, path)
    n = 0
    accepted = 0
    if bn == "__resigned__":
        for name, ev in resigned_variants().items():
            a = check_one(sess, backend, path, name, ev, viol, cid)
            n += 1
            accepted += bool(a)
    elif bn.startswith("__primed__"):
        # every single mutation and every re-signed variant again, this time right after a genuine event was acknowledged on the
        # same connection (state left over from the previous message must not leak into the answer)
        bname = bn[len("__primed__"):]
        todo = []
        for m in mutation_ids(tier):
            if len(m) <= 1:
                ev = apply_ops(B()[bname], m)
                if ev is not None:
                    todo.append(("%s|primed|mut=%s" % (bname, "+".join(m) or "none"), ev))
        if bname == "plain":
            todo += [("primed|" + k, v) for k, v in resigned_variants().items()]
        use_primer = None
        if bname == "delegated":
            # the genuine delegated event was accepted just before: its (valid) delegation tag presented by somebody it was not issued to
            tag = B()["delegated"]["tags"][0]
            use_primer = B()["delegated"]
            for who in ("C", "A", "K1"):
                e = copy.deepcopy(B()["plain"])
                e["pubkey"] = PK[who]
                e["tags"] = [list(tag)]
                e["content"] = "transplanted by %s" % who
                todo.append(("primed-by-delegated|transplant_by_%s" % who, resign(e, who)))
                e2 = copy.deepcopy(e)
                e2["tags"] = [["t", "x"], list(tag)]
                todo.append(("primed-by-delegated|transplant_second_tag_by_%s" % who, resign(e2, who)))
        for name, ev in todo:
            a = check_one(sess, backend, path, name, ev, viol, cid, primed=use_primer if (use_primer is not None and name.startswith("primed-by-delegated")) else True)
            if a is None:
                continue
            n += 1
            accepted += bool(a)
    else:
        base = B()[bn]
        for m in mutation_ids(tier)[lo:hi]:
            ev = apply_ops(base, m)
            if ev is None:
                continue
            name = "%s|mut=%s" % (bn, "+".join(m) or "none")
            a = check_one(sess, backend, path, name, ev, viol, cid)
            if a is None:
                continue
            n += 1
            accepted += bool(a)
    return {"id": "%s|%s|%s|%d" % (backend, path, bn, lo), "viol": viol, "outcome": None, "evals": max(n, 1), "nontrivial": n > 0,
            "desc": describe(case), "extra": {"submissions": n, "accepted": accepted},
            "sample": {"backend": backend, "path": path, "base": bn, "submissions": n, "accepted": accepted}}


def coverage(tier, agg):
    return {
        "rule": ("9 valid base events (ephemeral, plain, tagged, unicode content, NIP-26 delegated, replaceable, deletion, parameterized replaceable with a bare d tag, one signed by the relay's service key) x [identity + %d single mutation "
                "operators + %s pairs of operators on distinct fields] + %d re-signed structurally wrong variants (forged/transplanted/"
                "wrong-condition/truncated/bare/non-string delegation, string kind, wrong signer, upper-case pubkey, malformed tags with a "
                "consistent id and a signature that fails only inside verification), x {websocket EVENT, direct add_event, the real bulk loader command cli.load over a file (forged lines first, genuine last; storage section with and without a validators entry; the loader builds its own storage through get_storage())} x {sql, kv}; all single "
                "mutations and re-signed variants once more right after a genuine event was acknowledged on the same connection; oracle: OK=true only for authentic submissions, every pushed event and every stored record is authentic under an "
                "independent strict verifier; authentic submissions are accepted (non-vacuity)" + SCHEDMODE.rule() + ": a forged copy (bad signature / other content under "
                "the same id and sig) and the genuine event are in flight on two connections at once; the forged copy is never acknowledged true, pushed or stored") % (
                    len(OPS()), "all" if tier == "thorough" else "every 5th of the", len(resigned_variants())),
        "operators": sorted(OPS()),
        "backends": ["sql", "kv"],
    }


def replay(desc):
    if desc.get("mode") == "sched":
        r = run_case(SCHEDMODE.from_desc(desc))
        for v in r["viol"][:30]:
            print(v["clause"], v["detail"])
        return r["viol"]
    r = run_case((desc["backend"], desc["path"], desc["base"], desc["lo"], desc["hi"], desc.get("tier", "quick")))
    for v in r["viol"][:30]:
        print(v["clause"], v["detail"])
    return r["viol"]
