"""C09 - replaceable events: newest kept, older superseded, everything else untouched.
Explicit-state BFS (engine STORE) over two universes on both backends; frame-condition oracle per
transition (no hand-written expected store: the oracle only relates pre-state, event, post-state)."""
from .. import seq, store, refmodel as R
from ..universe import make_event

ID = "C09"
LEVEL = "model_checking"
ASSUMPTIONS = [
    "SQLite runs for real behind a same-thread shim; LMDB is an in-memory double (see DESIGN.md section 6)",
    "default (sequential) schedule: each submission runs to quiescence before the next",
]


def universes():
    U = {}
    a = {}
    for nm, t, c in (("a_r_t5", 5, ""), ("a_r_t10", 10, ""), ("a_r_t20", 20, ""), ("a_r_t20x", 20, "x")):
        a[nm] = make_event("A", 10002, t, [], c)
    for nm, t in (("a_k0_t5", 5), ("a_k0_t10", 10), ("a_k0_t20", 20)):
        a[nm] = make_event("A", 0, t, [], "{}")
    a["a_k3_t10"] = make_event("A", 3, 10, [["p", "00" * 32]], "")
    a["b_r_t10"] = make_event("B", 10002, 10, [], "")
    a["a_r2_t10"] = make_event("A", 10003, 10, [], "")
    a["a_k1_t10"] = make_event("A", 1, 10, [], "regular")
    from ..universe import delegation_tag
    a["b_r_t7_dlgA"] = make_event("B", 10002, 7, [delegation_tag("A", "B", "kind=10002")], "delegated by A")
    U["U9a"] = a
    b = {}
    dvals = (("abs", None), ("bare", ["d"]), ("emp", ["d", ""]), ("a", ["d", "a"]), ("ab", ["d", "ab"]),
             ("abc", ["d", "abc"]), ("uni", ["d", "é"]))
    for dn, tag in dvals:
        for t in (10, 20):
            b["a_p_%s_t%d" % (dn, t)] = make_event("A", 30000, t, [tag] if tag else [], "")
    b["b_p_a_t15"] = make_event("B", 30000, 15, [["d", "a"]], "")
    b["a_q_a_t15"] = make_event("A", 30001, 15, [["d", "a"]], "")
    b["a_k1_d_a"] = make_event("A", 1, 5, [["d", "a"]], "regular with d")
    U["U9b"] = b
    return U


def oracle(backend, uni, sess):
    def on_transition(hist, pre, nm, r, post):
        v = []
        e = uni[nm]
        P = store.decode_store(backend, pre)
        Q = store.decode_store(backend, post)
        oks = r["ok"]
        accepted = len(oks) == 1 and oks[0][2] is True
        removed = [P[i] for i in P if i not in Q]
        alpha = R.address(e)
        duplicate = e["id"] in P  # re-submission of a stored event must change nothing (C06): not judged here
        if accepted and alpha is not None and not duplicate:
            for x in P.values():
                if R.address(x) == alpha and x["created_at"] < e["created_at"] and x["id"] in Q:
                    v.append({"clause": "older-superseded", "sig": x["id"][:8],
                              "detail": "older version %s (t=%d) of address %r survives accepted %s (t=%d)" % (
                                  x["id"][:8], x["created_at"], alpha, nm, e["created_at"])})
        stored_after = e["id"] in Q
        for x in removed:
            ax = R.address(x)
            if ax is None:
                v.append({"clause": "regular-untouched", "sig": x["id"][:8],
                          "detail": "regular event %s removed by %s" % (x["id"][:8], nm)})
            elif ax != alpha or not (accepted or stored_after) or x["created_at"] > e["created_at"]:
                # removing an older (or equal-timestamp) version of the arriving event's own address is the only
                # removal the property allows; whether the newest survives is judged by newest-kept below
                v.append({"clause": "other-address-untouched", "sig": x["id"][:8],
                          "detail": "event %s (t=%d) of address %r removed by %s (t=%d, address %r, accepted=%s)" % (
                              x["id"][:8], x["created_at"], ax, nm, e["created_at"], alpha, accepted)})
        # newest version of every address present before (or arriving now) is still there
        addrs = {}
        pool = list(P.values()) + ([e] if accepted else [])
        for x in pool:
            ax = R.address(x)
            if ax is not None:
                addrs.setdefault(ax, []).append(x)
        for ax, xs in addrs.items():
            top = max(x["created_at"] for x in xs)
            newest = [x for x in xs if x["created_at"] == top]
            # the arriving event itself may be dropped only if a stored version is at least as new
            cands = [x for x in newest if x["id"] in Q]
            if not cands:
                if all(x["id"] == e["id"] for x in newest) and not accepted:
                    continue
                v.append({"clause": "newest-kept", "sig": repr(ax)[-20:] + str(top),
                          "detail": "no version with the newest timestamp %d of address %r is stored after %s" % (top, ax, nm)})
        return v

    return on_transition


CHECK = store.StoreCheck(
    ID, universes, oracle,
    depths={"quick": 3, "thorough": {"U9a": 5, "*": 4}},
    rule="universes U9a (kinds 0/3/10002/10003, timestamps 5,10,20,20', two authors, one regular) and U9b (kind 30000 x d in "
         "{absent,bare,'',a,ab,abc,e-acute} x t in {10,20}, same kind other author, other kind, regular with d tag); frame-condition "
         "oracle relating pre-state, event and post-state",
)
CHECK.export(globals())


# ---------------------------------------------------------------------------------------------------
# One-process histories.  The BFS above reaches every state through "restore the store, submit one event", i.e. with a writer that
# has just started; whatever the relay keeps in memory between events (a cache of newest versions, say) only shows in histories
# that run in ONE process without a restore in between: every arrival order of every subset of the versions of one address
# (plus the deletion of the newest version in between), behind a bystander, judged step by step with the same frame-condition oracle.
_base_cases = CHECK.cases
_base_run_case = CHECK.run_case
_base_coverage = CHECK.coverage
FAMILIES = {
    "r": ("U9a", ["a_r_t5", "a_r_t10", "a_r_t20", "a_r_t20x"], "a_k1_t10"),
    "k0": ("U9a", ["a_k0_t5", "a_k0_t10", "a_k0_t20"], "b_r_t10"),
    "p_a": ("U9b", ["a_p_a_t10", "a_p_a_t20", "a_p_ab_t10", "a_p_abs_t10"], "b_p_a_t15"),
}


def cases(tier):
    out = list(_base_cases(tier))
    for backend in ("sql", "kv"):
        for fam in FAMILIES:
            out.append((backend, "linear", [fam], 0))
    out += sched_cases(tier)
    return out


def _linear_histories(fam):
    import itertools

    un, versions, bystander = FAMILIES[fam]
    out = []
    for n in range(2, len(versions) + 1):
        for sub in itertools.permutations(versions, n):
            out.append([bystander] + list(sub))
            if n <= 3:
                out.append([bystander] + list(sub) + [sub[0]])  # the first one once more at the end
    return un, out


def run_linear(case):
    from .. import seq

    backend, _, (fam,), _ = case
    un, hists = _linear_histories(fam)
    uni = CHECK.U()[un]
    sess = seq.session(backend)
    judge = oracle(backend, uni, sess)
    viol = []
    cid = "%s|linear|%s" % (backend, fam)
    digests = set()
    steps = 0
    for hist in hists:
        sess.reset()
        pre = sess.dump()
        done = []
        for nm in hist:
            r = sess.submit(uni[nm])
            post = sess.dump()
            steps += 1
            for v in judge(tuple(done), pre, nm, r, post):
                v = dict(v)
                v["case"] = cid
                v["sig"] = "%s|%s" % (",".join(done + [nm]), v.get("sig", ""))
                v["detail"] = "%s | one-process history %s" % (v.get("detail", ""), ",".join(done + [nm]))
                viol.append(v)
            done.append(nm)
            pre = post
        digests.add(store.sdigest(pre))
    return {"id": cid, "viol": viol, "outcome": sorted(digests), "outcome_is_set": True, "evals": steps, "states": len(digests), "transitions": steps,
            "nontrivial": len(digests) > 1, "desc": describe(case), "extra": {"one_process_histories": len(hists), "one_process_steps": steps},
            "sample": {"mode": "linear", "backend": backend, "family": fam, "histories": len(hists)}}


# ---------------------------------------------------------------------------------------------------
# Two connections at once (SCHED): the supersession of one address while another connection's event is being stored.
def _sched_events():
    a = CHECK.U()["U9a"]
    ev = dict(a)
    ev["b_r_t20"] = make_event("B", 10002, 20, [], "B newer")
    return ev


SCHED = {
    # name: (pre-stored, script, must be gone at the end, must be present at the end)
    "replace_vs_note": (["a_r_t10"], [("c1", "a_r_t20"), ("c2", "a_k1_t10")], ["a_r_t10"], ["a_r_t20", "a_k1_t10"]),
    "note_vs_replace": (["a_r_t10"], [("c1", "a_k1_t10"), ("c2", "a_r_t20")], ["a_r_t10"], ["a_r_t20", "a_k1_t10"]),
    "two_addresses": (["a_r_t10", "b_r_t10"], [("c1", "a_r_t20"), ("c2", "b_r_t20")], ["a_r_t10", "b_r_t10"], ["a_r_t20", "b_r_t20"]),
    "same_address": (["a_r_t5"], [("c1", "a_r_t10"), ("c2", "a_r_t20")], ["a_r_t5"], ["a_r_t20"]),
    "meta_vs_note": (["a_k0_t5"], [("c1", "a_k0_t10"), ("c2", "a_k1_t10")], ["a_k0_t5"], ["a_k0_t10", "a_k1_t10"]),
}


def sched_scenario(name, backend):
    from ..explorer import Scenario

    base, _, policy = name.partition("@")
    pre, script, gone, present = SCHED[base]
    E = _sched_events()

    def setup(w):
        f = w.connect("setup", "9.9.9.9")
        w.run(1e6)
        for nm in pre:
            w.send("setup", ["EVENT", E[nm]], 1e6)
        f.drop()
        w.run(1e6)
        del w.conns["setup"]
        have = store.decode_store(backend, w.dump())
        if any(E[nm]["id"] not in have for nm in pre):
            from ..env import HarnessError

            raise HarnessError("scenario setup did not store %r" % pre)

    return Scenario("%s|%s" % (name, backend), backend, [("c1", "1.1.1.1"), ("c2", "2.2.2.2")], [(cn, ["EVENT", E[nm]]) for cn, nm in script],
                    storage_options={"stats_interval": 1e15}, setup=setup, horizon=30.0, policy=policy or "actor")


def sched_cases(tier):
    from .. import explorer, env

    env.boot()
    out = []
    for backend in ("sql", "kv"):
        for name in [n + sfx for n in SCHED for sfx in ("", "@fair")]:
            out.append((backend, "sched", [name], ()))
            firsts, npts = explorer.first_level(sched_scenario(name, backend))
            for p in firsts:
                out.append((backend, "sched", [name], tuple(p)))
    return out


def run_sched(case, tier="quick"):
    from .. import explorer

    backend, _, (name,), prefix = case
    base = name.partition("@")[0]
    pre, script, gone, present = SCHED[base]
    E = _sched_events()
    scn = sched_scenario(name, backend)
    viol = []
    cid = "sched|%s|%s" % (name, backend)
    stats = {"n": 0, "points": 0}
    outcomes = set()

    def on_exec(x):
        w = x.world
        sig = "sched=%s" % explorer.rle(x.choices)
        stats["n"] += 1
        stats["points"] += len(x.points)
        have = store.decode_store(backend, w.dump())
        oks = {}
        for cn, nm in script:
            for k, _, p in w.conns[cn].transcript:
                if k == "send" and p.startswith('["OK"') and E[nm]["id"] in p:
                    oks[nm] = '",true,' in p
        outcomes.add(tuple(sorted(n for n, e in E.items() if e["id"] in have)))
        if not all(oks.get(nm) for _, nm in script):
            return  # a refused submission (engine busy ...) promises nothing; C06 judges acknowledgements
        for nm in gone:
            if E[nm]["id"] in have:
                viol.append({"case": cid, "clause": "older-superseded", "sig": sig + "|" + nm,
                             "detail": "%s was stored before and is older than an accepted version of its address, but is still stored | %s schedule=%s" % (nm, scn.name, x.choices)})
        for nm in present:
            if E[nm]["id"] not in have:
                viol.append({"case": cid, "clause": "newest-kept" if R.address(E[nm]) else "other-address-untouched", "sig": sig + "|" + nm,
                             "detail": "%s was acknowledged and nothing newer supersedes it, but it is not stored | %s schedule=%s" % (nm, scn.name, x.choices)})
        for v in viol:
            v.setdefault("exact", {"scenario": name, "backend": backend, "choices": list(x.choices)})

    # a replacement against an unrelated note: explored one deviation deeper from the run-to-completion base schedule (letting the other
    # connection start AND overtake costs two)
    deeper = 1 if (base in ("replace_vs_note", "note_vs_replace") and "@" not in name) else 0
    if not prefix:
        explorer.explore(scn, 0, on_exec)
    else:
        explorer.explore(scn, deeper, on_exec, root_prefix=list(prefix))
    return {"id": "%s|p=%s" % (cid, explorer.rle(list(prefix))), "viol": viol, "outcome": sorted(map(repr, outcomes)), "outcome_is_set": True,
            "evals": stats["n"], "states": stats["points"], "transitions": stats["points"], "nontrivial": True, "desc": describe(case),
            "extra": {"sched_executions": stats["n"], "sched_choice_points": stats["points"]},
            "sample": {"mode": "sched", "scenario": scn.name, "prefix": list(prefix), "executions": stats["n"]}}


def run_case(case):
    if case[1] == "linear":
        return run_linear(case)
    if case[1] == "sched":
        return run_sched(case)
    return _base_run_case(case)


def coverage(tier, agg):
    c = _base_coverage(tier, agg)
    c["rule"] += " | one-process histories: every arrival order of every subset (>= 2) of the versions of one address (%s), each behind a bystander and " \
                 "the shorter ones with the first version re-sent at the end, run without restoring the store in between (what the relay keeps in " \
                 "memory between events is then part of the state), same oracle at every step | sched: two connections at once (a replacement vs. a note, two " \
                 "addresses, two versions of one address, metadata vs. note) on a pre-filled store under both base schedules with <= 1 deviation (<= 2 from the run-to-completion schedule for replacement vs. note): at quiescence " \
                 "every pre-stored older version is gone, every acknowledged newest version and bystander is stored" % ", ".join("%s: %d versions" % (k, len(v[1])) for k, v in FAMILIES.items())
    return c


def replay(desc):
    case = (desc["backend"], desc["universe"], desc["prefix"], desc["depth"])
    r = run_case(case)
    for v in r["viol"][:20]:
        print(v["clause"], v["detail"])
    return r["viol"]

