"""C15 - NIP-42 authentication succeeds only for a fresh, correctly signed answer.
Exhaustive neighbourhood of a valid AUTH payload x pre-identities, all sequences of <= 3 attempts from a reduced
payload set on two connections, relay_urls configured as a list and as the (string) default.  Identity is observed
only through behaviour: save needs role w (key K1), query needs role r (key K2)."""
import json
import copy
import itertools

from ..env import CLOCK, TOKENS
from ..harness import World
from ..universe import make_event, PK, SK, compute_id, _sign

ID = "C15"
LEVEL = "model_checking"
ASSUMPTIONS = ["real nostr_relay code imported from /repo's working tree, driven through web.start_client / the storage API; SQLite runs for real behind a same-thread connection shim (bound to real aiosqlite by C06's conformance cases); LMDB is an in-memory double (bound to the real liblmdb by C10's conformance cases), msgpack is pip's pure-python codec; asyncio runs on a controlled virtual-time loop; 'unpredictable' is checked as: each challenge is exactly one fresh draw of secrets.token_hex(16) (recorded source) and "
               "depends on nothing else - the entropy of `secrets` itself is outside what enumeration can decide"]
CHUNK = 1
URL = "ws://relay.example:6969"
NOW = 1_700_000_000


def configs():
    return {
        "urls_list": {"enabled": True, "actions": {"save": "w", "query": "r"}, "relay_urls": [URL]},
        # the shipped default is the *string* 'ws://localhost:6969'
        "urls_default": {"enabled": True, "actions": {"save": "w", "query": "r"}},
    }


def url_of(cfgname):
    return URL if cfgname == "urls_list" else "ws://localhost:6969"


def auth(key, challenge, url, created_at=NOW, kind=22242, tags=None):
    t = tags if tags is not None else [["relay", url], ["challenge", challenge]]
    return make_event(key, kind, created_at, t, "")


def variants(cfgname, ch_this, ch_other, ch_old, accepted_elsewhere=None):
    """name -> (payload, expected) with expected in {'K1','K2',None (invalid),'free'}"""
    url = url_of(cfgname)
    v = {}
    v["valid_K1"] = (auth("K1", ch_this, url), "K1")
    v["valid_K2"] = (auth("K2", ch_this, url), "K2")
    v["kind_22241"] = (auth("K1", ch_this, url, kind=22241), None)
    v["kind_22243"] = (auth("K1", ch_this, url, kind=22243), None)
    v["kind_1"] = (auth("K1", ch_this, url, kind=1), None)
    e = auth("K1", ch_this, url)
    v["bad_sig"] = (dict(e, sig=e["sig"][:-2] + ("00" if e["sig"][-2:] != "00" else "01")), None)
    v["signer_not_pubkey"] = (dict(e, sig=_sign(SK["K2"], e["id"])), None)
    e2 = copy.deepcopy(e)
    e2["content"] = "changed after signing"
    v["content_changed"] = (e2, None)
    v["challenge_of_other_conn"] = (auth("K1", ch_other, url), None)
    v["challenge_of_earlier_conn"] = (auth("K1", ch_old, url), None)
    v["challenge_empty"] = (auth("K1", "", url), None)
    v["challenge_missing"] = (auth("K1", ch_this, url, tags=[["relay", url]]), None)
    v["challenge_prefix"] = (auth("K1", ch_this[:-1], url), None)
    v["challenge_upper"] = (auth("K1", ch_this.upper(), url), None)
    v["challenge_good_then_bad"] = (auth("K1", ch_this, url, tags=[["relay", url], ["challenge", ch_this], ["challenge", "bad"]]), "free")
    v["challenge_bad_then_good"] = (auth("K1", ch_this, url, tags=[["relay", url], ["challenge", "bad"], ["challenge", ch_this]]), "free")
    v["extra_tags"] = (auth("K1", ch_this, url, tags=[["relay", url], ["challenge", ch_this], ["p", PK["A"]], ["x"]]), "K1")
    v["relay_missing"] = (auth("K1", ch_this, url, tags=[["challenge", ch_this]]), None)
    v["relay_other_host"] = (auth("K1", ch_this, "ws://evil.example:6969"), None)
    v["relay_substring"] = (auth("K1", ch_this, url[5:-2]), None)
    v["relay_one_char"] = (auth("K1", ch_this, url[3]), None)
    v["relay_empty"] = (auth("K1", ch_this, ""), None)
    v["relay_superstring"] = (auth("K1", ch_this, url + ".evil.example"), None)
    v["relay_other_scheme"] = (auth("K1", ch_this, url.replace("ws://", "http://")), None)
    v["relay_good_then_bad"] = (auth("K1", ch_this, url, tags=[["relay", url], ["relay", "ws://evil"], ["challenge", ch_this]]), "free")
    for d, exp in ((-601, None), (-600, "free"), (-599, "K1"), (0, "K1"), (599, "K1"), (600, "free"), (601, None)):
        v["created_at_%+d" % d] = (auth("K1", ch_this, url, created_at=NOW + d), exp)
    # timestamps that are not integers: not-a-number and the infinities are never "within ten minutes of now"; a fractional or
    # oddly typed timestamp inside the window is left free
    for nm, ca, exp in (("nan", float("nan"), None), ("inf", float("inf"), None), ("neg_inf", float("-inf"), None), ("float_in", NOW + 0.5, "free"),
                        ("float_old", NOW - 600.5, None), ("float_new", NOW + 600.5, None), ("huge", 10 ** 30, None), ("neg", -NOW, None),
                        ("true", True, None), ("string_now", str(NOW), "free"), ("null", None, None), ("list", [NOW], None)):
        try:
            v["created_at_" + nm] = (auth("K1", ch_this, url, created_at=ca), exp)
        except Exception:
            pass
    # sub-second ages: the bound is ten minutes, not "ten minutes after truncation to whole seconds" (third member = clock offset)
    v["age_600.75"] = (auth("K1", ch_this, url, created_at=NOW - 600), None, 0.75)
    v["age_-600.75"] = (auth("K1", ch_this, url, created_at=NOW + 600), None, -0.75)
    v["age_599.75"] = (auth("K1", ch_this, url, created_at=NOW - 599), "K1", 0.75)
    v["age_-599.25"] = (auth("K1", ch_this, url, created_at=NOW + 600), "K1", 0.75)
    # urls that a careless normalisation maps onto the configured one
    scheme, _, rest = url.partition("://")
    other = "wss" if scheme == "ws" else "ws"
    for nm, u in (("other_ws_scheme", other + "://" + rest), ("bare_host", rest), ("extra_w", scheme + "://w" + rest), ("extra_ws", scheme + "://ws" + rest),
                  ("extra_ss", "wss://ss" + rest), ("extra_s_colon", scheme + "://s:" + rest), ("trailing_slash", url + "/"), ("double_slash", scheme + ":////" + rest),
                  ("upper", url.upper()), ("leading_space", " " + url), ("trailing_space", url + " "), ("path", url + "/x"), ("userinfo", scheme + "://evil@" + rest)):
        if u != url:
            v["relay_" + nm] = (auth("K1", ch_this, u), None)
    v["tags_short_relay"] = (auth("K1", ch_this, url, tags=[["relay"], ["challenge", ch_this]]), None)
    v["tags_short_challenge"] = (auth("K1", ch_this, url, tags=[["relay", url], ["challenge"]]), None)
    v["tags_empty"] = (auth("K1", ch_this, url, tags=[]), None)
    v["payload_string"] = ("x", None)
    v["payload_list"] = ([1], None)
    v["payload_null"] = (None, None)
    v["payload_empty_obj"] = ({}, None)
    e3 = auth("K1", ch_this, url)
    v["id_forged"] = (dict(e3, id="ab" * 32), "free")
    # every tag list of length <= 3 over {good relay, foreign relay, this connection's challenge, another connection's challenge, unrelated}:
    # an identity needs a good relay tag AND this connection's challenge; lists that also carry a wrong one are left free
    alpha = {"R": ["relay", url], "r": ["relay", "ws://evil.example:6969"], "C": ["challenge", ch_this], "c": ["challenge", ch_other], "p": ["p", PK["A"]]}
    for n in (1, 2, 3):
        for combo in itertools.product(sorted(alpha), repeat=n):
            word = "".join(combo)
            if "R" in word and "C" in word:
                exp = "K1" if ("r" not in word and "c" not in word) else "free"
            else:
                exp = None
            v["tags_" + word] = (auth("K1", ch_this, url, tags=[list(alpha[x]) for x in combo]), exp)
    if accepted_elsewhere is not None:
        # id and sig copied from a genuine AUTH event that another connection got accepted earlier; the rest is for this connection
        v["id_sig_of_accepted_auth"] = (dict(e3, id=accepted_elsewhere["id"], sig=accepted_elsewhere["sig"]), None)
        v["id_sig_of_accepted_auth_other_key"] = (dict(auth("K2", ch_this, url), id=accepted_elsewhere["id"], sig=accepted_elsewhere["sig"]), None)
    return v


SEQ_SET = ["valid_K1", "valid_K2", "bad_sig", "challenge_of_other_conn", "created_at_-601", "relay_other_host"]


def cases(tier):
    out = []
    for backend in ("sql", "kv"):
        for cfgname in configs():
            out.append(("variants", backend, cfgname, "none", tier))
            out.append(("variants", backend, cfgname, "K2", tier))
            depth = 2 if tier == "quick" else 3
            for first in SEQ_SET:
                out.append(("seq", backend, cfgname, (first, depth), tier))
    out += SCHEDMODE.cases(tier)
    return out


def describe(case):
    if case[0] == "sched":
        return SCHEDMODE.describe(case)
    return {"mode": case[0], "backend": case[1], "config": case[2], "arg": list(case[3]) if isinstance(case[3], tuple) else case[3], "tier": case[4]}


def frames(c, n0=0):
    out = []
    for k, _, p in c.transcript[n0:]:
        if k == "send":
            try:
                out.append(json.loads(p))
            except ValueError:
                out.append(["UNPARSEABLE", p])
    return out


class Bench:
    """one World; connections on demand; identity probes"""

    def __init__(self, backend, cfgname):
        self.cfgname = cfgname
        CLOCK.now = float(NOW)
        self.w = World(backend, config={"authentication": configs()[cfgname]}, storage_options={"stats_interval": 1e15}, message_timeout=1e300)
        w = self.w
        w.call(w.storage.set_auth_roles(PK["K1"], "w"), 1e6)
        w.call(w.storage.set_auth_roles(PK["K2"], "r"), 1e6)
        w.run(1e6)
        self.n = 0
        self.probe_n = 0

    def connect(self):
        self.n += 1
        c = self.w.connect("c%d" % self.n, "1.1.1.%d" % (self.n % 250 + 1))
        self.w.run(1e6)
        fr = frames(c)
        ch = fr[0][1] if fr and fr[0][0] == "AUTH" else None
        return c, ch

    def connect_from(self, addr):
        self.n += 1
        c = self.w.connect("c%d" % self.n, addr)
        self.w.run(1e6)
        fr = frames(c)
        return c, (fr[0][1] if fr and fr[0][0] == "AUTH" else None)

    def attempt(self, c, payload):
        n0 = len(c.transcript)
        self.w.send(c, json.dumps(["AUTH", payload]), 1e6)
        return frames(c, n0)

    def identity(self, c):
        """'K1' if the connection may save, 'K2' if it may query, 'none' if neither, 'closed' if gone"""
        w = self.w
        if c.closed_by_relay is not None or c.task.done():
            return "closed"
        self.probe_n += 1
        ev = make_event("A", 1, 5000 + self.probe_n, [], "probe %d" % self.probe_n)
        n0 = len(c.transcript)
        w.send(c, json.dumps(["EVENT", ev]), 1e9)
        fr = frames(c, n0)
        oks = [m for m in fr if m[0] == "OK"]
        can_save = bool(oks) and oks[0][2] is True
        n0 = len(c.transcript)
        w.send(c, json.dumps(["REQ", "p", {"kinds": [1], "limit": 1}]), 1e9)
        fr = frames(c, n0)
        can_query = any(m[0] == "EOSE" for m in fr)
        w.send(c, json.dumps(["CLOSE", "p"]), 1e9)
        if c.closed_by_relay is not None or c.task.done():
            return "closed"
        if can_save and can_query:
            return "both"
        return "K1" if can_save else ("K2" if can_query else "none")

    def close(self):
        self.w.close()
        CLOCK.now = float(NOW)


def run_variants(case):
    _, backend, cfgname, pre, tier = case
    viol = []
    cid = "variants|%s|%s|pre=%s" % (backend, cfgname, pre)
    b = Bench(backend, cfgname)
    n = 0
    try:
        old, ch_old = b.connect()
        old.drop()
        b.w.run(1e6)
        other, ch_other = b.connect()
        # a genuine AUTH accepted on yet another connection (its id/sig are replayed by two variants)
        donor, ch_donor = b.connect()
        accepted = auth("K1", ch_donor, url_of(cfgname))
        b.attempt(donor, accepted)
        if b.identity(donor) != "K1":
            viol.append({"case": cid, "clause": "valid-answer-authenticates", "sig": "donor", "detail": "valid AUTH by K1 was not accepted"})
        issued = list(TOKENS.issued)
        names = list(variants(cfgname, "x" * 32, "y" * 32, "z" * 32, accepted))
        challenges = [ch_old, ch_other]
        for nm in names:
            c, ch = b.connect()
            challenges.append(ch)
            if ch is None:
                viol.append({"case": cid, "clause": "challenge-sent", "sig": nm, "detail": "no AUTH challenge on connect"})
                continue
            payload, expected, *rest = variants(cfgname, ch, ch_other, ch_old, accepted)[nm]
            clock_offset = rest[0] if rest else 0.0
            before = "none"
            if pre == "K2":
                b.attempt(c, auth("K2", ch, url_of(cfgname)))
                before = b.identity(c)
                if before != "K2":
                    viol.append({"case": cid, "clause": "valid-answer-authenticates", "sig": "pre|" + nm, "detail": "valid AUTH by K2 gave identity %r" % before})
                    continue
            CLOCK.now = float(NOW) + clock_offset
            try:
                b.attempt(c, payload)
            finally:
                CLOCK.now = float(NOW)
            n += 1
            after = b.identity(c)
            if expected == "free":
                ok = after in (before, "K1")
            elif expected is None:
                ok = after == before
            else:
                ok = after == expected
            if not ok:
                viol.append({"case": cid, "clause": "identity-only-by-valid-answer" if expected in (None, "free") else "valid-answer-authenticates",
                             "sig": nm, "detail": "AUTH variant %s: identity before=%s after=%s, expected %s (config %s)" % (
                                 nm, before, after, expected or "unchanged", cfgname)})
            # the same answer replayed on the other connection must not authenticate it
            if expected in ("K1", "K2"):
                b.attempt(other, payload)
                ido = b.identity(other)
                if ido != "none":
                    viol.append({"case": cid, "clause": "answer-useless-on-another-connection", "sig": nm,
                                 "detail": "answer to connection %s's challenge authenticated another connection as %s" % (c.name, ido)})
                    other, ch_other = b.connect()
        # reconnecting from the same address: a new challenge, and the answer to the old one is useless
        ra, ch_a = b.connect_from("7.7.7.7")
        ans = auth("K1", ch_a, url_of(cfgname))
        b.attempt(ra, ans)
        ra.drop()
        b.w.run(1e6)
        rb, ch_b = b.connect_from("7.7.7.7")
        challenges += [ch_a, ch_b]
        if ch_a == ch_b:
            viol.append({"case": cid, "clause": "challenges-distinct", "sig": "reconnect", "detail": "a reconnect from the same address got the previous challenge again"})
        b.attempt(rb, ans)
        n += 1
        if b.identity(rb) != "none":
            viol.append({"case": cid, "clause": "answer-useless-on-another-connection", "sig": "reconnect",
                         "detail": "the answer given on an earlier connection from the same address authenticated the new connection"})
        # challenges: one fresh 128-bit draw each, pairwise distinct
        chs = [x for x in challenges if x]
        if len(set(chs)) != len(chs):
            viol.append({"case": cid, "clause": "challenges-distinct", "sig": "dup", "detail": "two connections got the same challenge"})
        for x in chs:
            if x not in TOKENS.issued or len(x) != 32:
                viol.append({"case": cid, "clause": "challenge-is-fresh-random-draw", "sig": "src", "detail": "challenge %r is not a 16-byte draw of the secrets source" % x})
                break
    finally:
        b.close()
    return viol, n


def run_seq(case):
    _, backend, cfgname, (first, depth), tier = case
    viol = []
    cid = "seq|%s|%s" % (backend, cfgname)
    b = Bench(backend, cfgname)
    n = 0
    try:
        old, ch_old = b.connect()
        old.drop()
        b.w.run(1e6)
        for rest in itertools.product(SEQ_SET, repeat=depth - 1):
            for plen in range(len(rest) + 1):
                pass
            names = (first,) + rest
            c1, ch1 = b.connect()
            c2, ch2 = b.connect()
            ident = {1: "none", 2: "none"}
            for j, nm in enumerate(names):
                # attempts alternate between the two connections: 1,2,1
                which = 1 if j % 2 == 0 else 2
                c, ch, cho = (c1, ch1, ch2) if which == 1 else (c2, ch2, ch1)
                payload, expected = variants(cfgname, ch, cho, ch_old)[nm]
                b.attempt(c, payload)
                n += 1
                if expected in ("K1", "K2"):
                    ident[which] = expected
                for k, cc in ((1, c1), (2, c2)):
                    got = b.identity(cc)
                    if got != ident[k]:
                        viol.append({"case": cid, "clause": "identity-only-by-valid-answer" if expected is None or k != which else "valid-answer-authenticates",
                                     "sig": ",".join(names[: j + 1]) + "|c%d" % k,
                                     "detail": "after attempts %s (alternating c1,c2,..) connection c%d has identity %s, expected %s" % (
                                         ",".join(names[: j + 1]), k, got, ident[k])})
                        ident[k] = got
            for cc in (c1, c2):
                cc.drop()
            b.w.run(1e6)
    finally:
        b.close()
    return viol, n


# ---------------------------------------------------------------------------------------------------
# Two connections authenticate at the same time (SCHED): each ends up with the identity it proved, never with the other's.
from ..schedmode import SchedMode  # noqa: E402
from ..env import TOKENS  # noqa: E402

_CH = {}


def _s_setup(w):
    TOKENS.reset()
    w.call(w.storage.set_auth_roles(PK["K1"], "w"), 1e6)
    w.call(w.storage.set_auth_roles(PK["K2"], "r"), 1e6)
    w.run(1e6)
    TOKENS.reset()


def _challenges(backend):
    """the token source is deterministic: learn the challenges the two connections will get"""
    if backend not in _CH:
        w = World(backend, config={"authentication": configs()["urls_list"]}, storage_options={"stats_interval": 1e15}, message_timeout=1e300)
        try:
            _s_setup(w)
            out = []
            for cn, addr in (("c1", "1.1.1.1"), ("c2", "2.2.2.2")):
                c = w.connect(cn, addr)
                w.run(1e6)
                out.append(frames(c)[0][1])
            _CH[backend] = out
        finally:
            w.close()
    return _CH[backend]


S_EV1 = make_event("K1", 1, NOW - 5, [], "by K1")
S_EV2 = make_event("K2", 1, NOW - 4, [], "by K2")
S_NAMES = {"own_challenges": None, "swapped_challenges": None, "auth_vs_probe_of_the_other": None}


def _s_script(name, backend):
    ch1, ch2 = _challenges(backend)
    url = url_of("urls_list")
    if name == "swapped_challenges":
        ch1, ch2 = ch2, ch1
    a1 = ("c1", ["AUTH", auth("K1", ch1, url)])
    a2 = ("c2", ["AUTH", auth("K2", ch2, url)])
    probes = [("c1", ["EVENT", S_EV1]), ("c1", ["REQ", "p1", {"kinds": [1]}]), ("c2", ["EVENT", S_EV2]), ("c2", ["REQ", "p2", {"kinds": [1]}])]
    if name == "auth_vs_probe_of_the_other":
        return [a1, ("c2", ["EVENT", S_EV2]), ("c2", ["REQ", "p2", {"kinds": [1]}]), a2, ("c1", ["EVENT", S_EV1]), ("c1", ["REQ", "p1", {"kinds": [1]}]),
                ("c2", ["REQ", "p3", {"kinds": [1]}])]
    return [a1, a2] + probes


def _s_build(name, backend, policy):
    from ..explorer import Scenario

    return Scenario("%s%s|%s" % (name, "@fair" if policy == "fair" else "", backend), backend, [("c1", "1.1.1.1"), ("c2", "2.2.2.2")], _s_script(name, backend),
                    config={"authentication": configs()["urls_list"]}, storage_options={"stats_interval": 1e15}, setup=_s_setup, horizon=60.0, policy=policy)


S_EXPECT = {
    # (connection, probe) -> granted?   K1 holds role w (may save), K2 holds role r (may query)
    "own_challenges": {("c1", "EVENT"): True, ("c1", "p1"): False, ("c2", "EVENT"): False, ("c2", "p2"): True},
    "swapped_challenges": {("c1", "EVENT"): False, ("c1", "p1"): False, ("c2", "EVENT"): False, ("c2", "p2"): False},
    "auth_vs_probe_of_the_other": {("c1", "EVENT"): True, ("c1", "p1"): False, ("c2", "EVENT"): False, ("c2", "p2"): False, ("c2", "p3"): True},
}


def _s_judge(x, name, backend, viol, cid, sig):
    w = x.world
    for (cn, probe), want in S_EXPECT[name].items():
        fr = frames(w.conns[cn])
        if probe == "EVENT":
            got = any(m[0] == "OK" and m[2] is True for m in fr)
        else:
            got = any(m[0] == "EOSE" and m[1] == probe for m in fr)
        if got != want:
            viol.append({"case": cid, "clause": "identity-only-by-valid-answer" if got else "valid-answer-authenticates", "sig": sig + "|%s|%s" % (cn, probe),
                         "detail": "%s: probe %s was %s, expected %s (K1 may save, K2 may query; each connection answers %s challenge)" % (
                             cn, probe, "granted" if got else "refused", "granted" if want else "refused", "the other's" if name == "swapped_challenges" else "its own")})


SCHEDMODE = SchedMode(S_NAMES, _s_build, _s_judge)


def run_case(case):
    if SCHEDMODE.is_case(case) and case[0] == "sched":
        return SCHEDMODE.run(case)
    if case[0] == "variants":
        viol, n = run_variants(case)
    else:
        viol, n = run_seq(case)
    uniq = {}
    for v in viol:
        uniq.setdefault((v["clause"], v["sig"]), v)
    return {"id": "%s|%s|%s|%s" % (case[0], case[1], case[2], case[3]), "viol": list(uniq.values()), "outcome": None, "evals": max(n, 1),
            "states": max(n, 1), "transitions": max(n, 1), "nontrivial": n > 0, "desc": describe(case), "extra": {"auth_attempts_%s" % case[0]: n},
            "sample": {"mode": case[0], "backend": case[1], "config": case[2], "attempts": n}}


def coverage(tier, agg):
    return {
        "rule": ("variants: %d AUTH payloads derived from a valid one (kind, signature, signer, content, challenge of another / an earlier connection / "
                "empty / missing / prefix / upper-case / duplicated, extra tags, relay tag missing / other host / substring / single character / empty / "
                "superstring / other scheme / duplicated, created_at at -601,-600,-599,0,+599,+600,+601 s, short tags, non-object payloads, forged id; every tag list of length <= 3 over {good relay, foreign relay, own challenge, "
                "another connection's challenge, unrelated tag}) "
                "on a fresh connection with pre-identity none and K2, relay_urls as list and as the string default; valid answers are replayed on a "
                "second connection; seq: all sequences of <= %d attempts over %r alternating between two connections; identity observed after every "
                "attempt through save (role w = K1) and query (role r = K2) probes; challenges must be distinct fresh draws of the secrets source." + SCHEDMODE.rule() +
                ": two connections authenticate at once (each with its own challenge / each with the other's / one probing while the other authenticates) and end up "
                "with exactly the identity they proved") % (
                    len(variants("urls_list", "x" * 32, "y" * 32, "z" * 32)), 2 if tier == "quick" else 3, SEQ_SET),
        "backends": ["sql", "kv"],
    }


def replay(desc):
    if desc.get("mode") == "sched":
        r = run_case(SCHEDMODE.from_desc(desc))
        for v in r["viol"][:30]:
            print(v["clause"], v["detail"][:500])
        return r["viol"]
    arg = desc["arg"]
    r = run_case((desc["mode"], desc["backend"], desc["config"], tuple(arg) if isinstance(arg, list) else arg, desc.get("tier", "quick")))
    for v in r["viol"][:30]:
        print(v["clause"], v["detail"][:500])
    return r["viol"]
