"""C01 - a REQ is answered only with accepted events that match one of its filters; filter contents
are pure data.  (1) semantic soundness over stores x hostile filter lists (both backends, real REQ
path); (2) statement/code invariance: skeleton of the SQL text the engine received (SQLite run for
real; PostgreSQL branch at text level) and AST skeleton of the Python source handed to compile() by
the LMDB residual matcher, each compared with the same filter shape carrying benign values."""
import ast
import json
import itertools

from .. import seq, qtable as Q, refmodel as R, sqllex
from ..universe import make_event, PK

ID = "C01"
LEVEL = "model_checking"
ASSUMPTIONS = ["real nostr_relay code imported from /repo's working tree, driven through web.start_client / the storage API; SQLite runs for real behind a same-thread connection shim (bound to real aiosqlite by C06's conformance cases); LMDB is an in-memory double (bound to the real liblmdb by C10's conformance cases), msgpack is pip's pure-python codec; asyncio runs on a controlled virtual-time loop; PostgreSQL branch of evaluate_filter is covered at the SQL-text level only (no server in the sandbox)"]
CHUNK = 1

STR_ALPHA = [
    "'", "''", "\\", '"', "\x00", "%", "_", "--", ";", ")", "' OR '1'='1", "x' OR 1=1 --", "\\x27", "__import__('os')",
    "{0}", "%s", "%(x)s", "\\N{BULLET}", "\U0001f600", "\ud800", "", ":x", "a:b", "'); DROP TABLE events; --", "\\'", "a\x00b",
    "it's", "é", "/*", "*/ OR 1=1 /*", "\n", "x'41'", "$1", "?", "a", "ab",
]
NONSTR = [[], [[]], {}, 5, True, None, 2 ** 63, 2 ** 70, -1, 1.5, "5", [None], ["a", 5], {"a": "b"}, 0, 2145934800, 2145934799]
HEXISH = ["ab" * 32, "AB" * 32, "ab" * 31, "ab" * 33, "zz" * 32, "ab" * 32 + "'", "", "a", "ab" * 31 + "a'"]


def hostile_universe():
    u = {}
    base = Q.U1()
    for nm in ("a_k1_t10_ea", "a_k1_t20_eab", "b_k1_t20_eb", "a_k2_t30_dup", "b_k256_t30_dlg", "a_k255_T_nul"):
        u[nm] = base[nm]
    u["h_quotes"] = make_event("A", 1, 40, [["t", "'"], ["t", "%"], ["t", "_"], ["t", "a'b"], ["t", ""]], "q")
    u["h_inj"] = make_event("B", 1, 41, [["e", "x' OR '1'='1"], ["r", "a:b"], ["t", ":x"], ["t", "--"]], "i")
    u["h_names"] = make_event("C", 7, 42, [["'", "q"], ["\\", "b"], ["%", "p"], ["\x00", "n"], ["é", "u"], ["\U0001f600", "s"]], "n")
    u["h_plain"] = make_event("C", 1, 43, [["e", "a"], ["t", "ab"]], "p")
    # histories with deletions and replacements: what was removed must not come back through any index path
    u["h_repl_old"] = make_event("A", 10002, 44, [["t", "ab"], ["e", "a"]], "old version")
    u["h_repl_new"] = make_event("A", 10002, 45, [["t", "%"]], "new version")
    u["h_del"] = make_event("A", 5, 46, [["e", u["a_k1_t10_ea"]["id"]], ["e", u["h_quotes"]["id"]], ["t", "ab"]], "deletes a_k1_t10_ea and h_quotes")
    return u


_HU = None


def HU():
    global _HU
    if _HU is None:
        _HU = hostile_universe()
    return _HU


def hostile_filters(tier):
    u = HU()
    good_id = u["a_k1_t10_ea"]["id"]
    A = PK["A"]
    out = []

    def add(f):
        out.append(f)

    benign = {"kinds": [1]}
    for h in STR_ALPHA:
        add({"#e": [h]})
        add({"#t": [h]})
        add({"#t": [h, "a"], "kinds": [1, 7]})
        add({"ids": [h]})
        add({"authors": [h]})
        add({"kinds": [h]})
        add({"since": h, "kinds": [1]})
        add({"until": h, "kinds": [1]})
        add({"limit": h, "kinds": [1]})
        add({"search": h, "kinds": [1]})
        add({h: [h], "kinds": [1]})
        add({"#" + h: ["a"]})
        add({"#" + h: ["q", "b", "p", "n", "u", "s", h]})
        add({"#" + h: [h], "kinds": [7, 1]})
        add({"tags": [[h, [h]]], "kinds": [1]})
        add({"tags": h})
        add({"ids": [good_id + h]})
        add({"ids": [h + good_id]})
        add({"authors": [A + h]})
        add({"authors": [h + A], "kinds": [1]})
        add({"ids": [good_id[:32] + h + good_id[32:]]})
        add({"ids": [good_id], "#e": [h]})
        add({"authors": [A], "#t": [h]})
    for v in NONSTR:
        for key in ("ids", "authors", "kinds", "since", "until", "limit", "#e", "#t", "tags", "search", "zzz"):
            add({key: v})
            add({key: v, "kinds": [1]})
            if isinstance(v, list):
                pass
            else:
                add({key: [v]})
                add({key: [v], "kinds": [1]})
    for hx in HEXISH:
        add({"ids": [hx]})
        add({"authors": [hx]})
        add({"ids": [hx, good_id]})
        add({"authors": [hx, A], "kinds": [1]})
    add({})
    add({"limit": 5})
    add({"#e": []})
    add({"#e": [""], "kinds": [1]})
    add({"#e": [], "kinds": [1]})
    add({"#t": [""]})
    add({"ids": []})
    add({"authors": [], "kinds": [1]})
    add({"kinds": []})
    singles = [[f] for f in out]
    lists = list(singles)
    step = 1 if tier == "thorough" else 7
    for f in out[::step]:
        lists.append([dict(benign), f])
        lists.append([f, {"authors": [A]}])
    for f, g in itertools.combinations(out[:: (23 if tier == "thorough" else 97)], 2):
        lists.append([f, g, dict(benign)])
    # several filters that each carry tag conditions (bound values of one filter must never leak into another)
    tagf = [{"#e": ["a"]}, {"#t": ["it's"]}, {"kinds": [7], "#p": [A]}, {"kinds": [2], "#e": ["b"]}, {"#t": ["'"]}, {"#e": ["x' OR '1'='1"], "kinds": [255]},
            {"#p": [A], "#e": ["ab"]}, {"kinds": [1], "#t": ["ab", "%"]}, {"#'": ["q"]}, {"#e": ["b"], "#p": [], "kinds": [1]}, {"kinds": [256], "#t": ["é"]},
            {"#r": ["a:b"]}, {"#e": [], "#t": ["_"]}, {"authors": [A], "#t": [":x"]}, {"#e": ["a", "ab"], "#p": [A]}, {"#e": ["a", "ab", "b"], "#t": ["zz"]}]
    for f in tagf:
        lists.append([f])
    for f, g in itertools.permutations(tagf, 2):
        lists.append([f, g])
    for f, g, h in list(itertools.permutations(tagf[:7], 3))[:: (1 if tier == "thorough" else 5)]:
        lists.append([f, g, h])
    # non-object filters
    for v in ("x", 5, None, [], [1], True):
        lists.append([v])
        lists.append([dict(benign), v])
    return lists


def cases(tier):
    names = list(HU())
    if tier == "quick":
        stores = [S for S in Q.subsets(names[:4])] + [tuple(names), tuple(names[4:]), tuple(names[6:]), tuple(names[:10])]
    else:
        stores = list(Q.subsets(names[:4])) + [tuple(names)] + [tuple(names[:4]) + S for S in Q.subsets(names[4:]) if S]
    out = [("sem", backend, S, tier) for backend in ("sql", "kv") for S in stores]
    out += [("wf", backend, S, tier) for backend in ("sql", "kv") for S in Q.subsets(Q.members(tier))]
    out += SCHEDMODE.cases(tier)
    nf = len(_lists(tier))
    blk = 400
    for lo in range(0, nf, blk):
        out.append(("text", "sql", (lo, min(nf, lo + blk)), tier))
        out.append(("text", "pg", (lo, min(nf, lo + blk)), tier))
        out.append(("text", "kv", (lo, min(nf, lo + blk)), tier))
    return out


_L = {}


def _lists(tier):
    if tier not in _L:
        _L[tier] = hostile_filters(tier)
    return _L[tier]


def describe(case):
    if case[0] == "sched":
        return SCHEDMODE.describe(case)
    return {"mode": case[0], "backend": case[1], "arg": list(case[2]), "tier": case[3]}


# ---------------------------------------------------------------------------------------------------
# permissive reference semantics of a raw (possibly malformed) filter, for soundness only
def _intlike(v):
    if isinstance(v, bool):
        return int(v)
    if isinstance(v, int):
        return v
    if isinstance(v, float) and v == int(v):
        return int(v)
    if isinstance(v, str):
        try:
            return int(v.strip())
        except ValueError:
            return None
    return None


def may_match(f, ev):
    if not isinstance(f, dict):
        return False
    for key, val in f.items():
        if not isinstance(key, str):
            continue
        if key in ("ids", "authors"):
            if isinstance(val, list):
                strs = {x.lower() for x in val if isinstance(x, str)}
                if key == "ids":
                    if ev["id"] not in strs:
                        return False
                elif ev["pubkey"] not in strs and not (R.delegators(ev) & strs):
                    return False
        elif key == "kinds":
            if isinstance(val, list):
                ks = {_intlike(x) for x in val}
                if ev["kind"] not in ks:
                    return False
        elif key == "since":
            s = _intlike(val)
            if s is not None and s and ev["created_at"] < s:
                return False
        elif key == "until":
            u = _intlike(val)
            if u is not None and ev["created_at"] > u:
                return False
        elif key.startswith("#") and len(key) == 2:
            if isinstance(val, list):
                strs = {x for x in val if isinstance(x, str)}
                if not (R.tag_values(ev, key[1]) & strs):
                    return False
    return True


# ---------------------------------------------------------------------------------------------------
_WF = {}


def wf_lists(tier):
    """well-formed language (the one C02 uses for completeness), thinned: here only soundness is judged"""
    if tier not in _WF:
        singles = Q.W_single(tier)
        step = 7 if tier == "quick" else 5
        out = [[f] for f in singles[::step]]
        # every index plan x every kind of window, un-thinned: ids / authors / kinds / tags alone and in pairs with since, until, both, 0
        fo = Q.field_options()
        wins = [{"since": 20}, {"until": 20}, {"since": 11, "until": 29}, {"until": 0}, {"since": 0, "until": 15}, {"since": 21}, {"until": 10}, {"since": 31}]
        for k in fo:
            for v in fo[k]:
                for w in wins:
                    out.append([dict({k: v}, **w)])
        for k1, k2 in (("authors", "kinds"), ("kinds", "#e"), ("ids", "kinds"), ("authors", "#p"), ("ids", "authors")):
            for v1 in fo[k1][:3]:
                for v2 in fo[k2][:3]:
                    for w in wins[:5]:
                        out.append([dict({k1: v1, k2: v2}, **w)])
        out += [fl for fl in Q.W_multi(tier)][:: (3 if tier == "quick" else 1)]
        seen = set()
        _WF[tier] = [fl for fl in out if not (Q.fkey(fl) in seen or seen.add(Q.fkey(fl)))]
    return _WF[tier]


def run_sem(case):
    mode, backend, S, tier = case
    wf = mode == "wf"
    uni = Q.U1() if wf else HU()
    sess = seq.session(backend)
    Q.build_store(sess, S, uni)
    from .. import store as _store

    actually = _store.decode_store(backend, sess.dump())
    stored = {uni[nm]["id"]: uni[nm] for nm in S if uni[nm]["id"] in actually}  # deleted / superseded members are no longer "accepted and stored"
    byid = {e["id"]: nm for nm, e in uni.items()}
    viol = []
    n = 0
    nonempty = 0
    cid = "%s%s|S=%s" % ("wf|" if wf else "", backend, ",".join(S))
    for filters in (wf_lists(tier) if wf else _lists(tier)):
        if sess.w.backend == "sql":
            del sess.w.sql.errors[:]
        frames, closed = sess.query(filters, raw=True)
        n += 1
        fk = Q.fkey(filters)
        got_any = False
        for raw in frames:
            try:
                m = json.loads(raw)
            except ValueError:
                continue  # frame well-formedness is C04's business
            if not (isinstance(m, list) and m and m[0] == "EVENT"):
                continue
            got_any = True
            ev = m[2] if len(m) > 2 else None
            if not isinstance(ev, dict) or ev.get("id") not in stored:
                viol.append({"case": cid, "clause": "only-accepted-events", "sig": "%s|%s" % (str(ev)[:20], fk),
                             "detail": "frame carries something that is not a stored event: %r | filters=%s" % (str(ev)[:100], fk)})
                continue
            orig = stored[ev["id"]]
            if any(ev.get(k) != orig[k] for k in ("pubkey", "created_at", "kind", "tags", "content", "sig")):
                viol.append({"case": cid, "clause": "only-accepted-events", "sig": "altered:%s|%s" % (ev["id"][:8], fk),
                             "detail": "served event %s differs from the accepted one | filters=%s" % (byid[ev["id"]], fk)})
            if not any((Q.loose_matches({k: v for k, v in f.items() if k != "limit"}, orig) if wf else may_match(f, orig)) for f in filters):
                viol.append({"case": cid, "clause": "matches-a-filter", "sig": "%s|%s" % (byid[ev["id"]], fk),
                             "detail": "returned %s matches no filter of %s | store={%s}" % (byid[ev["id"]], fk, ",".join(S))})
        if got_any:
            nonempty += 1
        if sess.w.backend == "sql" and sess.w.sql.errors:
            err = sess.w.sql.errors[0]
            viol.append({"case": cid, "clause": "engine-accepts-statement", "sig": "%s|%s" % (err[2][:40], fk),
                         "detail": "the engine rejected the statement built for %s: %s" % (fk, err[2])})
    return {"id": cid, "viol": viol, "outcome": None, "evals": n, "nontrivial": nonempty > 0, "desc": describe(case),
            "extra": {("wf_req_with_results" if wf else "sem_req_with_results"): nonempty, ("wf_req" if wf else "sem_req"): n},
            "sample": {"mode": mode, "backend": backend, "store": list(S), "filter_lists": n, "with_results": nonempty}}


# ---------------------------------------------------------------------------------------------------
class Twin:
    """consistent renaming of free-form strings to benign alphanumeric tokens"""

    def __init__(self):
        self.vals = {}
        self.names = {}

    def val(self, s):
        if s == "":
            return ""
        if s not in self.vals:
            self.vals[s] = "v%dz" % len(self.vals)
        return self.vals[s]

    def name(self, s):
        if s not in self.names:
            self.names[s] = "abcdefghijklmnopqrstuvwxyz"[len(self.names) % 26]
        return self.names[s]


def validated(ns, filters):
    """what subscribe() does: validate each raw filter, dropping the invalid ones"""
    out = []
    for raw in filters:
        try:
            out.append(ns.base.NostrQuery.model_validate(json.loads(json.dumps(raw))))
        except (ns.base.ValidationError, ns.errors.StorageError):
            pass
        except Exception:
            return None  # the REQ as a whole fails (connection-level error): C13/C19's business
    return out


def twin_of(ns, queries):
    tw = Twin()
    out = []
    for q in queries:
        d = q.model_dump()
        t = {}
        for k in ("ids", "authors", "kinds", "since", "until", "limit"):
            if d.get(k) is not None:
                t[k] = d[k]
        if d.get("tags"):
            t["tags"] = [(tw.name(n), {tw.val(v) for v in vals}) for n, vals in d["tags"]]
        out.append(ns.base.NostrQuery(**t))
    return out


def ast_skeleton(src):
    tree = ast.parse(src)

    class Erase(ast.NodeTransformer):
        def visit_Constant(self, node):
            return ast.copy_location(ast.Constant(value="?" if isinstance(node.value, str) else 0), node)

        def visit_Tuple(self, node):
            self.generic_visit(node)
            if all(isinstance(e, ast.Constant) for e in node.elts):
                return ast.copy_location(ast.Constant(value="?tuple"), node)
            return node

        visit_List = visit_Tuple

    tree = Erase().visit(tree)
    dumped = ast.dump(tree)
    return dumped


def clause_multiset(src):
    """the residual matcher joins a *set* of clauses with ' and ': compare clause skeletons as a multiset"""
    tree = ast.parse(src)
    fn = tree.body[0]
    ret = None
    for node in ast.walk(fn):
        if isinstance(node, ast.Return):
            ret = node.value
            break
    parts = ret.values if isinstance(ret, ast.BoolOp) else [ret]
    out = []
    for p in parts:
        out.append(ast_skeleton(ast.unparse(p)))
    return sorted(out)


def run_text(case):
    _, which, (lo, hi), tier = case
    from .. import env

    ns = env.boot()
    sess = seq.session("sql" if which in ("sql", "pg") else "kv")
    storage = sess.w.storage
    viol = []
    n = 0
    checked = 0
    cid = "text|%s" % which
    captured = []
    if which == "kv":
        kv = ns.kv
        real_compile = compile

        def cap(src, *a, **k):
            captured.append(src)
            return real_compile(src, *a, **k)

        kv.compile = cap
    try:
        for filters in _lists(tier)[lo:hi]:
            n += 1
            fk = Q.fkey(filters)
            qs = validated(ns, filters)
            if not qs:
                continue
            tw = twin_of(ns, qs)
            if which in ("sql", "pg"):
                texts = []
                for queries in (qs, tw):
                    sub = ns.db.Subscription(storage, "x", list(queries), queue=None, client_id="c")
                    sub.is_postgres = which == "pg"
                    try:
                        q, _ = sub.build_query(list(queries))
                        texts.append(str(q))
                    except Exception as e:
                        texts.append(None)
                if texts[0] is None or texts[1] is None:
                    if (texts[0] is None) != (texts[1] is None):
                        viol.append({"case": cid, "clause": "statement-skeleton", "sig": "build:" + fk,
                                     "detail": "build_query fails for exactly one of hostile/benign twin | filters=%s" % fk})
                    continue
                checked += 1
                try:
                    sk_h = sqllex.skeleton(texts[0])
                except sqllex.LexError as e:
                    viol.append({"case": cid, "clause": "statement-lexes", "sig": "%s|%s" % (e, fk),
                                 "detail": "statement does not tokenise (%s) | filters=%s | sql=%r" % (e, fk, texts[0][-300:])})
                    continue
                sk_b = sqllex.skeleton(texts[1])
                if sorted(sk_h) != sorted(sk_b) or len(sk_h) != len(sk_b):
                    viol.append({"case": cid, "clause": "statement-skeleton", "sig": fk,
                                 "detail": "statement skeleton differs from the benign twin | filters=%s | sql=%r | twin=%r" % (
                                     fk, texts[0][-400:], texts[1][-400:])})
                    continue
                # provenance of literals: every string literal is a tag name/value of the validated filters, a hex id/pubkey or a constant
                allowed = {"delegation", "hex"}
                for q in qs:
                    for k in ("ids", "authors"):
                        for x in (getattr(q, k) or []):
                            allowed.add(x)
                            allowed.add("\\x" + x)
                            allowed.add(x + "%")
                    for name, vals in (q.tags or []):
                        allowed.add(name)
                        allowed.update(vals)
                for kind, text in sqllex.literals(texts[0]):
                    if kind == "str" and text not in allowed:
                        viol.append({"case": cid, "clause": "literal-provenance", "sig": "%s|%s" % (text[:20], fk),
                                     "detail": "string literal %r of the statement is not a value of the filter | filters=%s" % (text, fk)})
            else:
                srcs = []
                for queries in (qs, tw):
                    del captured[:]
                    ns.kv.compile_match_from_query.cache_clear()
                    plans = ns.kv.planner(list(queries))
                    for p in plans:
                        ns.kv.compile_match_from_query(p.query)
                    srcs.append(list(captured))
                checked += 1
                if len(srcs[0]) != len(srcs[1]):
                    viol.append({"case": cid, "clause": "code-skeleton", "sig": "nplans:" + fk,
                                 "detail": "number of compiled residual matchers differs from the benign twin | filters=%s" % fk})
                    continue
                for sh, sb in zip(srcs[0], srcs[1]):
                    try:
                        a, b = clause_multiset(sh), clause_multiset(sb)
                    except SyntaxError as e:
                        viol.append({"case": cid, "clause": "code-parses", "sig": fk, "detail": "generated source does not parse: %r | %s" % (sh, e)})
                        continue
                    if a != b:
                        viol.append({"case": cid, "clause": "code-skeleton", "sig": fk,
                                     "detail": "AST skeleton of the compiled matcher differs from the benign twin | filters=%s | src=%r | twin=%r" % (fk, sh, sb)})
    finally:
        if which == "kv":
            del ns.kv.compile
    return {"id": "%s|%d-%d" % (cid, lo, hi), "viol": viol, "outcome": None, "evals": n, "nontrivial": checked > 0, "desc": describe(case),
            "extra": {"text_pairs_compared_%s" % which: checked},
            "sample": {"mode": "text", "which": which, "filter_lists": n, "compared_with_twin": checked}}


# ---------------------------------------------------------------------------------------------------
# Several connections at once: what one connection asks (or submits) must not leak into the answer another one gets.
def _sched_store():
    u = Q.U1()
    return [u[n] for n in ("a_k1_t10_ea", "a_k1_t20_eab", "b_k1_t20_eb", "a_k2_t30_dup", "b_k256_t30_dlg")]


def _sched_specs():
    u = Q.U1()
    B = u["b_k1_t20_eb"]["pubkey"]
    ida = u["a_k1_t10_ea"]["id"]
    dele = make_event("A", 5, 50, [["e", ida]], "")
    newev = make_event("B", 2, 60, [["e", "a"]], "arrives during the queries")
    return {
        "two_queries": [("c1", ["REQ", "p", {"kinds": [1]}]), ("c2", ["REQ", "q", {"kinds": [2], "#e": ["a"]}])],
        "query_vs_hostile_query": [("c1", ["REQ", "p", {"#e": ["a"]}]), ("c2", ["REQ", "q", {"#e": ["x' OR '1'='1"], "kinds": [256]}])],
        "ids_vs_authors": [("c1", ["REQ", "p", {"ids": [ida], "since": 5}]), ("c2", ["REQ", "q", {"authors": [B], "until": 25}])],
        "query_vs_deletion": [("c1", ["REQ", "p", {"kinds": [1]}]), ("c2", ["EVENT", dele]), ("c1", ["REQ", "r", {"kinds": [5, 2]}])],
        "query_vs_new_event": [("c1", ["REQ", "p", {"kinds": [1], "#e": ["a"]}]), ("c2", ["EVENT", newev]), ("c2", ["REQ", "q", {"kinds": [256]}])],
    }, [dele, newev]


def _sched_build(name, backend, policy):
    from ..explorer import Scenario

    specs, extra = _sched_specs()
    pre = _sched_store()

    def setup(w):
        f = w.connect("setup", "9.9.9.9")
        w.run(1e6)
        for ev in pre:
            w.send("setup", ["EVENT", ev], 1e6)
        f.drop()
        w.run(1e6)
        del w.conns["setup"]
        from .. import store as _store
        from ..env import HarnessError

        have = _store.decode_store(backend, w.dump())
        if any(e["id"] not in have for e in pre):
            raise HarnessError("scenario setup did not store its events")

    return Scenario("%s%s|%s" % (name, "@fair" if policy == "fair" else "", backend), backend, [("c1", "1.1.1.1"), ("c2", "2.2.2.2")], specs[name],
                    storage_options={"stats_interval": 1e15}, setup=setup, horizon=30.0, policy=policy)


def _sched_judge(x, name, backend, viol, cid, sig):
    specs, extra = _sched_specs()
    known = {e["id"]: e for e in _sched_store() + extra}
    filters = {}
    for cn, fr in specs[name]:
        if fr[0] == "REQ":
            filters[(cn, fr[1])] = fr[2:]
    for cn, c in x.world.conns.items():
        for k, _, p in c.transcript:
            if k != "send":
                continue
            try:
                m = json.loads(p)
            except ValueError:
                continue
            if not (isinstance(m, list) and m and m[0] == "EVENT"):
                continue
            fl = filters.get((cn, m[1]))
            ev = m[2] if len(m) > 2 else None
            if fl is None:
                viol.append({"case": cid, "clause": "matches-a-filter", "sig": sig + "|%s|%s" % (cn, m[1]), "detail": "%s received a frame for subscription %r, which it never opened" % (cn, m[1])})
                continue
            if not isinstance(ev, dict) or ev.get("id") not in known or any(ev.get(f) != known[ev["id"]][f] for f in ("pubkey", "created_at", "kind", "tags", "content", "sig")):
                viol.append({"case": cid, "clause": "only-accepted-events", "sig": sig + "|%s" % cn, "detail": "%s received something that is not an accepted event: %r" % (cn, str(ev)[:80])})
                continue
            if not any(Q.loose_matches(f, known[ev["id"]]) for f in fl):
                viol.append({"case": cid, "clause": "matches-a-filter", "sig": sig + "|%s|%s" % (cn, ev["id"][:8]),
                             "detail": "%s received event %s (kind %d) under %r, whose filters %s it does not match" % (cn, ev["id"][:8], ev["kind"], m[1], json.dumps(fl))})


from ..schedmode import SchedMode  # noqa: E402

SCHEDMODE = SchedMode({n: None for n in ("two_queries", "query_vs_hostile_query", "ids_vs_authors", "query_vs_deletion", "query_vs_new_event")},
                      _sched_build, _sched_judge)


def run_case(case):
    if SCHEDMODE.is_case(case) and case[0] == "sched":
        return SCHEDMODE.run(case)
    if case[0] in ("sem", "wf"):
        return run_sem(case)
    return run_text(case)


def coverage(tier, agg):
    return {
        "rule": ("hostile filter language: %d filter lists = every member of a %d-string alphabet (quotes, backslash, NUL, SQL/Python metacharacters, "
                "comment markers, bind-parameter syntax, format directives, non-BMP, lone surrogate, empty) and of a %d-value non-string alphabet "
                "(lists, dicts, numbers out of range, booleans, null) at every filter position (ids, authors, kinds, since, until, limit, search, "
                "#x name, #x value, tags, unknown key): each alone; %s of them before and after a benign filter; all pairs of every %s "
                "plus a benign filter; 16 tag-carrying filters alone, in all ordered pairs and %s ordered triples of the first 7; non-object filters. "
                "wf cases: every subset of the regular universe U1 x %d well-formed filter lists (every index plan x every kind of time window incl. "
                "until 0, a stride of C02's single-filter language, multi-filter REQs): every returned event is a stored one and matches a filter of the REQ "
                "under NIP-01 (window bounds inclusive). sem cases: store x all lists through the real REQ path, every returned event must be a stored one, verbatim, and satisfy a "
                "permissive NIP-01 reading of at least one raw filter; SQL engine errors are violations. text cases: statement / generated code "
                "skeleton equals that of the benign twin (SQLite, PostgreSQL branch, LMDB residual matcher) and every string literal has provenance." + SCHEDMODE.rule() + ": "
                "every EVENT frame a connection receives carries an accepted event and matches a filter of the subscription it is sent under") % (
                    len(_lists(tier)), len(STR_ALPHA), len(NONSTR), "each" if tier == "thorough" else "every 7th",
                    "23rd" if tier == "thorough" else "97th", "all" if tier == "thorough" else "every 5th of the", len(wf_lists(tier))),
        "backends": ["sql", "kv", "pg(text only)"],
    }


def replay(desc):
    if desc.get("mode") == "sched":
        case = SCHEDMODE.from_desc(desc)
    else:
        case = (desc["mode"], desc["backend"], tuple(desc["arg"]), desc.get("tier", "quick"))
    r = run_case(case)
    for v in r["viol"][:20]:
        print(v["clause"], v["detail"][:600])
    return r["viol"]
