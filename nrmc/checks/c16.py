"""C16 - configured admission policies are applied to every event, fail-closed; dynamic lists.
(1) every ordered pipeline of <= 3 of the 10 validators x events at / just inside / just outside each bound, through the
real add_event on both backends with a subscriber; reference bounds written from the docstrings; (2) all 257 leading-zero-bit
counts x 6 thresholds; (3) validators whose configuration is missing; (4) ListBuilder.run_once over prepared stores;
(5) the list-refresh / validation race, every interleaving of the two real functions at line (thorough: opcode)
granularity under a preemption bound (threadmc)."""
import json
import types
import itertools

from .. import seq, store, refmodel as R, threadmc
from ..env import CLOCK
from ..universe import make_event, PK, SK, compute_id, _sign

ID = "C16"
LEVEL = "model_checking"
ASSUMPTIONS = ["real nostr_relay code imported from /repo's working tree, driven through web.start_client / the storage API; SQLite runs for real behind a same-thread connection shim (bound to real aiosqlite by C06's conformance cases); LMDB is an in-memory double (bound to the real liblmdb by C10's conformance cases), msgpack is pip's pure-python codec; asyncio runs on a controlled virtual-time loop; reference bounds follow the validator docstrings: equality with a limit is accepted (size, PoW bits, p-tag count); age exactly "
               "oldest_event / future skew exactly 3600 s either way",
               "CPython switches threads only between bytecodes: opcode granularity is exhaustive for the two traced functions"]
CHUNK = 1
NOW = 1_700_000_000
V = "nostr_relay.validators."
VALIDATORS = [V + "is_not_too_large", V + "is_signed", V + "is_recent", V + "is_certain_kind", V + "is_author_whitelisted",
              V + "is_author_blacklisted", V + "is_pow", V + "is_not_hellthread", V + "is_service_event",
              "nostr_relay.dynamic_lists.is_pubkey_allowed"]
CFG = dict(max_event_size=50, oldest_event=1000, valid_kinds=[1, 7, 31494, 3, 20001, 10002, 30000, 5], pubkey_whitelist=[PK["A"], PK["S"], PK["K1"]],
           pubkey_blacklist=[PK["B"]], require_pow=8, hellthread_limit=3)
ALLOWED = [PK["A"], PK["S"], PK["K1"], PK["K2"]]
DENIED = [PK["C"]]


def zero_bits(idhex):
    return 256 - int(idhex, 16).bit_length()


def ground(author, kind=1, created_at=NOW - 10, tags=(), content_len=10, bits=8, exact=False, pk=None, sk=None):
    """signed event whose id has >= bits (exact: == bits) leading zero bits; content length fixed"""
    for n in range(400000):
        c = ("%0" + str(content_len) + "d") % n if content_len else ""
        if len(c) != content_len:
            c = c[-content_len:] if content_len else ""
        ev = make_event(author, kind, created_at, tags, c, pk=pk, sk=sk)
        z = zero_bits(ev["id"])
        if (z == bits) if exact else (z >= bits):
            return ev
        if content_len == 0:
            tags = list(tags) + [["n", str(n)]]
    raise RuntimeError("grind")


_EV = None


def events():
    """name -> (event, {validator short name: passes?}) ; None = either way"""
    global _EV
    if _EV is not None:
        return _EV
    ev = {}
    ok = dict(is_not_too_large=True, is_signed=True, is_recent=True, is_certain_kind=True, is_author_whitelisted=True,
              is_author_blacklisted=True, is_pow=True, is_not_hellthread=True, is_service_event=True, is_pubkey_allowed=True)

    def add(name, e, **dev):
        d = dict(ok)
        d.update(dev)
        ev[name] = (e, d)

    add("good", ground("A"))
    add("size_max_m1", ground("A", content_len=49))
    add("size_max", ground("A", content_len=50))
    add("size_max_p1", ground("A", content_len=51), is_not_too_large=False)
    add("age_oldest_m1", ground("A", created_at=NOW - 999))
    add("age_oldest", ground("A", created_at=NOW - 1000), is_recent=None)
    add("age_oldest_p1", ground("A", created_at=NOW - 1001), is_recent=False)
    add("future_3599", ground("A", created_at=NOW + 3599))
    add("future_3600", ground("A", created_at=NOW + 3600), is_recent=None)
    add("future_3601", ground("A", created_at=NOW + 3601), is_recent=False)
    add("kind_7_in", ground("A", kind=7))
    add("kind_2_out", ground("A", kind=2), is_certain_kind=False)
    add("kind_0_out", ground("A", kind=0), is_certain_kind=False)
    add("author_K2_not_whitelisted", ground("K2"), is_author_whitelisted=False)
    add("author_B_blacklisted", ground("B"), is_author_whitelisted=False, is_author_blacklisted=False, is_pubkey_allowed=False)
    add("author_C_denied", ground("C"), is_author_whitelisted=False, is_pubkey_allowed=False)
    add("author_K3_unlisted", ground("K3"), is_author_whitelisted=False, is_pubkey_allowed=False)
    add("pow_7", ground("A", bits=7, exact=True), is_pow=False)
    add("pow_8", ground("A", bits=8, exact=True))
    add("pow_9", ground("A", bits=9, exact=True))
    add("pow_0", ground("A", bits=0, exact=True), is_pow=False)
    p = lambda n: [["p", "%064x" % i] for i in range(n)]  # noqa: E731
    add("ptags_2_k1", ground("A", tags=p(2)))
    add("ptags_3_k1", ground("A", tags=p(3)))
    add("ptags_4_k1", ground("A", tags=p(4)), is_not_hellthread=False)
    add("ptags_4_k7", ground("A", kind=7, tags=p(4)), is_not_hellthread=False)
    add("ptags_4_k3", ground("A", kind=3, tags=p(4)))
    add("ptags_4_plus_e_k1", ground("A", tags=p(3) + [["e", "x"], ["P", "y"]]))
    add("service_by_service", ground("S", kind=31494, tags=[["d", "x"]]))
    add("service_by_A", ground("A", kind=31494, tags=[["d", "x"]]), is_service_event=False)
    # the kinds that take their own paths through the storage code (ephemeral: never written on LMDB; replaceable; parameterized;
    # deletion) are subject to the same pipeline
    for kn, k, tg in (("eph", 20001, []), ("repl", 10002, []), ("param", 30000, [["d", "x"]]), ("del", 5, [["e", "ab" * 32]])):
        add("%s_good" % kn, ground("A", kind=k, tags=tg))
        add("%s_size_max_p1" % kn, ground("A", kind=k, tags=tg, content_len=51), is_not_too_large=False)
        add("%s_age_oldest_p1" % kn, ground("A", kind=k, tags=tg, created_at=NOW - 1001), is_recent=False)
        add("%s_author_B" % kn, ground("B", kind=k, tags=tg), is_author_whitelisted=False, is_author_blacklisted=False, is_pubkey_allowed=False)
        add("%s_pow_7" % kn, ground("A", kind=k, tags=tg, bits=7, exact=True), is_pow=False)
        b2 = dict(ground("A", kind=k, tags=tg, created_at=NOW - 11))
        b2["sig"] = b2["sig"][:-2] + ("00" if b2["sig"][-2:] != "00" else "01")
        add("%s_bad_signature" % kn, b2, is_signed=False)
    add("eph_kind_out", ground("A", kind=20002), is_certain_kind=False)
    bad = dict(ground("A"))
    bad["sig"] = bad["sig"][:-2] + ("00" if bad["sig"][-2:] != "00" else "01")
    add("bad_signature", bad, is_signed=False)
    _EV = ev
    return ev


def short(v):
    return v.rsplit(".", 1)[1]


def pipelines(tier):
    out = [()]
    for n in (1, 2, 3):
        perms = list(itertools.permutations(VALIDATORS, n))
        if tier == "quick" and n == 3:
            perms = perms[::9]
        out += perms
    return out


def cases(tier):
    out = []
    pls = pipelines(tier)
    blk = 40
    for backend in ("sql", "kv"):
        for lo in range(0, len(pls), blk):
            out.append(("pipe", backend, lo, lo + blk, tier))
        out.append(("pow", backend, 0, 0, tier))
        out.append(("missing", backend, 0, 0, tier))
        out.append(("lists", backend, 0, 0, tier))
        out.append(("listdriver", backend, 0, 0, tier))
    # one case per (target, rotation, granularity) so that the interleaving explorations run in parallel
    nvar = 3 * (2 if tier == "thorough" else 1)
    for i in range(nvar):
        out.append(("race", "-", i, 0, tier))
    return out


def describe(case):
    return {"mode": case[0], "backend": case[1], "lo": case[2], "hi": case[3], "tier": case[4]}


def session(backend):
    s = seq.session(backend, config=dict(CFG))
    CLOCK.now = float(NOW)
    for k, v in CFG.items():
        setattr(s.w.ns.Config, k, list(v) if isinstance(v, list) else v)
    s.w.ns.Config.service_privatekey = SK["S"]
    s.w.ns.Config.dynamic_lists = None
    dl = s.w.ns
    import nostr_relay.dynamic_lists as D

    D.ALLOWED_PUBKEYS.clear()
    D.ALLOWED_PUBKEYS.update(bytes.fromhex(x) for x in ALLOWED)
    D.DENIED_PUBKEYS.clear()
    D.DENIED_PUBKEYS.update(bytes.fromhex(x) for x in DENIED)
    return s


def submit_and_judge(sess, backend, pipeline, name, e, expect, viol, cid, sig):
    """expect: True / False / None(either)"""
    sess.reset()
    pre = sess.dump()
    r = sess.submit(e)
    post = sess.dump()
    oks = r["ok"]
    admitted = bool(oks) and oks[0][2] is True
    stored = e.get("id") in store.decode_store(backend, post)
    pushed = [p.get("id") for p in r["pushed"]]
    eph = isinstance(e.get("kind"), int) and 20000 <= e["kind"] < 30000
    if expect is True and not (admitted and (stored or (eph and e.get("id") in pushed))):  # an ephemeral event is broadcast, not necessarily stored
        viol.append({"case": cid, "clause": "admitted-when-all-bounds-hold", "sig": sig,
                     "detail": "%s passes every validator of %s but was refused: %r" % (name, [short(v) for v in pipeline], oks[:1])})
    if expect is False:
        if admitted or stored or post != pre:
            viol.append({"case": cid, "clause": "refused-when-a-bound-is-violated", "sig": sig,
                         "detail": "%s violates a validator of %s but admitted=%s stored=%s" % (name, [short(v) for v in pipeline], admitted, stored)})
        if pushed:
            viol.append({"case": cid, "clause": "refused-leaves-no-trace", "sig": sig, "detail": "%s refused but pushed to a subscriber" % name})
        if oks and not oks[0][2] and not oks[0][3]:
            viol.append({"case": cid, "clause": "refused-with-reason", "sig": sig, "detail": "%s refused without a reason" % name})
    if not admitted and (post != pre or pushed):
        viol.append({"case": cid, "clause": "refused-leaves-no-trace", "sig": sig, "detail": "%s: OK=false but store changed or event pushed" % name})
    return admitted


def run_pipe(case):
    _, backend, lo, hi, tier = case
    sess = session(backend)
    ns = sess.w.ns
    viol = []
    cid = "pipe|%s" % backend
    n = 0
    both = set()
    evs = events()
    try:
        for pl in pipelines(tier)[lo:hi]:
            sess.w.storage.validate_event = ns.validators.get_validator(list(pl))
            for name, (e, verdicts) in evs.items():
                vs = [verdicts[short(v)] for v in pl]
                expect = False if any(x is False for x in vs) else (None if any(x is None for x in vs) else True)
                if name == "bad_signature" and V + "is_signed" not in pl:
                    continue  # C03's business: without is_signed nothing checks signatures
                a = submit_and_judge(sess, backend, pl, name, e, expect, viol, cid, "%s|%s" % (">".join(short(v) for v in pl) or "none", name))
                both.add(a)
                n += 1
    finally:
        sess.w.storage.validate_event = ns.validators.get_validator([V + "is_signed"])
    return viol, n, len(both) == 2


def run_pow(case):
    """all 257 leading-zero-bit counts x thresholds; ids forged freely (pipeline without is_signed)"""
    _, backend, _, _, tier = case
    sess = session(backend)
    ns = sess.w.ns
    viol = []
    cid = "pow|%s" % backend
    n = 0
    base = make_event("A", 1, NOW - 5, [], "pow")
    try:
        sess.w.storage.validate_event = ns.validators.get_validator([V + "is_pow"])
        for thr in (0, 1, 8, 9, 255, 256):
            ns.Config.require_pow = thr
            for z in range(257):
                if z == 256:
                    idhex = "0" * 64
                else:
                    idhex = "%064x" % ((1 << (255 - z)) | (0x5A5A5A5A % (1 << max(0, 255 - z))))
                e = dict(base, id=idhex)
                a = submit_and_judge(sess, backend, (V + "is_pow",), "zero_bits=%d" % z, e, z >= thr, viol, cid, "thr=%d|z=%d" % (thr, z))
                n += 1
    finally:
        ns.Config.require_pow = CFG["require_pow"]
        sess.w.storage.validate_event = ns.validators.get_validator([V + "is_signed"])
    return viol, n, True


def run_missing(case):
    """a configured validator whose parameter is absent must not let everything through silently"""
    _, backend, _, _, tier = case
    sess = session(backend)
    ns = sess.w.ns
    viol = []
    cid = "missing|%s" % backend
    n = 0
    e = events()["kind_2_out"][0]
    e_b = events()["author_B_blacklisted"][0]
    e_pow0 = events()["pow_0"][0]
    checks = [("valid_kinds", V + "is_certain_kind", e), ("pubkey_whitelist", V + "is_author_whitelisted", e_b),
              ("require_pow", V + "is_pow", e_pow0), ("pubkey_blacklist", V + "is_author_blacklisted", e_b),
              # no service key configured: nobody is the service, so a service-kind event by anybody is refused
              ("service_privatekey", V + "is_service_event", events()["service_by_A"][0]),
              ("service_privatekey", V + "is_service_event", events()["service_by_service"][0])]
    try:
        for attr, val, ev in checks:
            old = getattr(ns.Config, attr)
            setattr(ns.Config, attr, None)
            try:
                sess.w.storage.validate_event = ns.validators.get_validator([val])
                sess.reset()
                r = sess.submit(ev)
                n += 1
                if r["ok"] and r["ok"][0][2] is True:
                    viol.append({"case": cid, "clause": "fail-closed-when-unconfigured", "sig": attr,
                                 "detail": "%s configured but Config.%s missing: event admitted" % (short(val), attr)})
            finally:
                setattr(ns.Config, attr, old)
    finally:
        sess.w.storage.validate_event = ns.validators.get_validator([V + "is_signed"])
    return viol, n, True


class StubStorage:
    def __init__(self, results):
        self.results = results
        self.calls = []

    async def run_single_query(self, queries):
        self.calls.append(queries)
        for e in self.results.get(json.dumps(queries, sort_keys=True), []):
            yield e


def run_lists(case):
    """ListBuilder.run_once against prepared query results: lists = exactly the valid p-tagged pubkeys (+ static keys)"""
    _, backend, _, _, tier = case
    sess = session(backend)
    ns = sess.w.ns
    import nostr_relay.dynamic_lists as D

    viol = []
    cid = "lists|%s" % backend
    n = 0
    k = [PK["K1"], PK["K2"], PK["K3"]]
    shapes = {
        "lower": (["p", k[0]], {k[0]}), "upper": (["p", k[1].upper()], {k[1]}), "short63": (["p", k[2][:63]], set()), "nonhex": (["p", "zz" * 32], set()),
        "bare": (["p"], set()), "with_relay": (["p", k[2], "wss://r"], {k[2]}), "e_tag": (["e", k[2]], set()), "long66": (["p", k[2] + "00"], set()),
    }
    names = list(shapes)
    allow_q = [{"kinds": [3]}]
    deny_q = [{"kinds": [1984]}]
    old_storage = ns.storage_pkg._STORAGE
    try:
        for r in (0, 1, 2, 3):
            for combo in itertools.combinations(names, r):
                for static in (True, False):
                    sess.reset()
                    tags = [shapes[c][0] for c in combo]
                    want = set()
                    for c in combo:
                        want |= shapes[c][1]
                    evs = []
                    if tags:
                        # split over two events to exercise multi-event results
                        evs.append(make_event("A", 3, NOW - 1, tags[:2], ""))
                        if tags[2:]:
                            evs.append(make_event("K1", 3, NOW - 2, tags[2:], ""))
                    for e in evs:
                        sess.add_direct_raw(e) if hasattr(sess, "add_direct_raw") else None
                    ns.Config.dynamic_lists = {"allow_list_queries": allow_q, "deny_list_queries": deny_q}
                    ns.Config.pubkey_whitelist = [PK["A"]] if static else []
                    ns.Config.service_privatekey = SK["S"] if static else None
                    D.ALLOWED_PUBKEYS.clear()
                    D.ALLOWED_PUBKEYS.add(b"\x01" * 32)  # stale entry from an earlier pass
                    D.DENIED_PUBKEYS.clear()
                    Ev = ns.base.Event
                    stub = StubStorage({json.dumps(allow_q, sort_keys=True): [Ev(**e) for e in evs],
                                        json.dumps(deny_q, sort_keys=True): [Ev(**e) for e in evs[:1]]})
                    D.get_storage = lambda: stub
                    b = D.ListBuilder()
                    sess.w.call(b.run_once(), 1e6)
                    n += 1
                    got = {x.hex() for x in D.ALLOWED_PUBKEYS}
                    exp = set(want)
                    if exp and static:
                        exp |= {PK["A"], PK["S"]}
                    sig = "%s|static=%s" % (",".join(combo) or "-", static)
                    if got != exp:
                        viol.append({"case": cid, "clause": "allow-list-exactly-p-tagged-plus-static", "sig": sig,
                                     "detail": "allow list after refresh = %r, expected %r | result tags %r" % (sorted(x[:6] for x in got), sorted(x[:6] for x in exp), tags)})
                    dwant = set()
                    for c in combo[:2]:
                        dwant |= shapes[c][1]
                    dgot = {x.hex() for x in D.DENIED_PUBKEYS}
                    if dgot != dwant:
                        viol.append({"case": cid, "clause": "deny-list-exactly-p-tagged", "sig": sig,
                                     "detail": "deny list after refresh = %r, expected %r" % (sorted(x[:6] for x in dgot), sorted(x[:6] for x in dwant))})
        # decision table of the validator itself: every combination of an enforced / unenforced allow list and deny list
        ks = [bytes.fromhex(PK[x]) for x in ("K1", "K2", "K3")]
        Ev = ns.base.Event
        for allowed in ([], [0], [0, 1], [1], [0, 1, 2]):
            for denied in ([], [0], [2], [0, 2], [1]):
                for who in (0, 1, 2):
                    D.ALLOWED_PUBKEYS.clear()
                    D.ALLOWED_PUBKEYS.update(ks[i] for i in allowed)
                    D.DENIED_PUBKEYS.clear()
                    D.DENIED_PUBKEYS.update(ks[i] for i in denied)
                    ev = Ev(**make_event("K%d" % (who + 1), 1, NOW, [], "x"))
                    try:
                        D.is_pubkey_allowed(ev, ns.Config)
                        got = True
                    except ns.errors.StorageError:
                        got = False
                    want = (not allowed or who in allowed) and who not in denied
                    n += 1
                    if got != want:
                        viol.append({"case": cid, "clause": "dynamic-lists-decide-as-documented", "sig": "allow=%s|deny=%s|who=%d" % (allowed, denied, who),
                                     "detail": "is_pubkey_allowed %s K%d with allow list %s and deny list %s (expected %s)" % (
                                         "admits" if got else "refuses", who + 1, ["K%d" % (i + 1) for i in allowed], ["K%d" % (i + 1) for i in denied],
                                         "admitted" if want else "refused")})
        D.ALLOWED_PUBKEYS.clear()
        D.DENIED_PUBKEYS.clear()
    finally:
        from nostr_relay.storage import get_storage as real_get

        D.get_storage = real_get
        ns.Config.dynamic_lists = None
        ns.Config.pubkey_whitelist = CFG["pubkey_whitelist"]
        ns.Config.service_privatekey = SK["S"]
        ns.storage_pkg._STORAGE = old_storage
    return viol, n, True


def run_race(case):
    """T1 = real ListBuilder.run_once (refresh old -> new allow list), T2 = real is_pubkey_allowed for a pubkey in neither list"""
    from .. import env

    ns = env.boot()
    import nostr_relay.dynamic_lists as D

    # this case edits the process-global Config directly: no cached sequential session may outlive it with a stale view
    seq.close_all()
    saved = {k: getattr(ns.Config, k) for k in ("dynamic_lists", "pubkey_whitelist", "service_privatekey")}
    tier = case[4]
    viol = []
    cid = "race"
    Ev = ns.base.Event
    OLD_NEW = {"overlapping": ([PK["K1"], PK["K2"]], [PK["K2"], PK["K3"]]), "disjoint": ([PK["K1"], PK["K2"]], [PK["K3"], PK["K4"]])}
    outsider = make_event("K5", 1, NOW, [], "outsider")
    insider = make_event("K2", 1, NOW, [], "in both lists")
    allow_q = [{"kinds": [3]}]
    res_evs = {k: Ev(**make_event("A", 3, NOW - 1, [["p", x] for x in v[1]], "")) for k, v in OLD_NEW.items()}
    outcomes = set()
    stats = {"n": 0, "insider_refused": 0}
    ns.Config.dynamic_lists = {"allow_list_queries": allow_q}
    ns.Config.pubkey_whitelist = []
    ns.Config.service_privatekey = None

    def make_threads_for(target_event, label, rot="overlapping"):
        def mk():
            D.ALLOWED_PUBKEYS.clear()
            D.ALLOWED_PUBKEYS.update(bytes.fromhex(x) for x in OLD_NEW[rot][0])
            D.DENIED_PUBKEYS.clear()
            stub = StubStorage({json.dumps(allow_q, sort_keys=True): [res_evs[rot]]})
            D.get_storage = lambda: stub
            b = D.ListBuilder()

            def t1():
                co = b.run_once()
                try:
                    co.send(None)
                except StopIteration:
                    return "done"
                raise RuntimeError("run_once suspended")

            def t2():
                try:
                    D.is_pubkey_allowed(Ev(**target_event), ns.Config)
                    return "admitted"
                except ns.errors.StorageError:
                    return "refused"

            return [("refresh", t1, [D.ListBuilder.run_once.__code__]), ("validate", t2, [D.is_pubkey_allowed.__code__])]
        return mk

    try:
        variants = [(label, target, rot, opc) for opc in ((False, True) if tier == "thorough" else (False,))
                    for label, target, rot in (("outsider", outsider, "overlapping"), ("outsider", outsider, "disjoint"), ("insider", insider, "overlapping"))]
        for label, target, rot, opc in [variants[case[2]]]:
            for opcodes in (opc,):
                bound = 2 if not opcodes else 2

                def on_run(r, label=label, opcodes=opcodes, rot=rot):
                    stats["n"] += 1
                    res = r.threads[1].result
                    outcomes.add((label, res))
                    if r.threads[0].exc or r.threads[1].exc:
                        raise RuntimeError("thread raised: %r %r" % (r.threads[0].exc, r.threads[1].exc))
                    if label == "outsider" and res != "refused":
                        viol.append({"case": cid, "clause": "no-window-where-enforced-allow-list-is-empty", "sig": "%s|%s|%s" % ("opcode" if opcodes else "line", rot, r.taken),
                                     "detail": "a pubkey that is in neither the old nor the new allow list (%s rotation) was admitted by is_pubkey_allowed in "
                                               "schedule %r (granularity=%s); trace tail=%r" % (rot, r.taken, "opcode" if opcodes else "line", r.trace[-6:])})
                    if label == "insider" and res != "admitted":
                        stats["insider_refused"] += 1

                # CPython's adaptive interpreter reports fewer opcode events while the code is cold: warm the two functions up
                # under the tracer first so that every counted schedule sees the same (full) set of scheduling points
                for _ in range(3):
                    threadmc.explore(make_threads_for(target, label, rot), 0, lambda r: None, opcodes=opcodes)
                threadmc.explore(make_threads_for(target, label, rot), bound, on_run, opcodes=opcodes)
    finally:
        from nostr_relay.storage import get_storage as real_get

        D.get_storage = real_get
        D.ALLOWED_PUBKEYS.clear()
        D.DENIED_PUBKEYS.clear()
        for k, v in saved.items():
            setattr(ns.Config, k, v)
        seq.close_all()
    # keep one witness per granularity
    uniq = {}
    for v in viol:
        uniq.setdefault("|".join(v["sig"].split("|")[:2]), v)
    return list(uniq.values()), stats["n"], len(outcomes) > 1, stats


def run_listdriver(case):
    """the periodic driver of the list builder: a pass that fails (the list query raises once) does not stop the refreshes that follow"""
    from ..harness import World
    import nostr_relay.dynamic_lists as D

    _, backend, _, _, tier = case
    seq.close_all()
    viol = []
    cid = "listdriver|%s" % backend
    allow_q = [{"kinds": [3]}]
    k = [PK["K1"], PK["K2"]]
    w = World(backend, config={"dynamic_lists": {"allow_list_queries": allow_q, "check_interval": 100}}, storage_options={"stats_interval": 1e15}, message_timeout=1e300)
    ns = w.ns
    real_get = D.get_storage
    n = 0
    try:
        Ev = ns.base.Event
        state = {"results": [Ev(**make_event("A", 3, NOW - 1, [["p", k[0]]], ""))], "fail_next": False, "calls": 0}

        class Stub:
            async def run_single_query(self, queries):
                state["calls"] += 1
                if state["fail_next"]:
                    state["fail_next"] = False
                    raise RuntimeError("injected failure of the list query")
                for e in state["results"]:
                    yield e

        D.get_storage = lambda: Stub()
        D.ALLOWED_PUBKEYS.clear()
        D.DENIED_PUBKEYS.clear()
        b = D.ListBuilder()
        w.call(b.start(), 10.0)
        w.run(horizon=10)  # the pass at start
        first = {x.hex() for x in D.ALLOWED_PUBKEYS}
        if k[0] not in first:
            viol.append({"case": cid, "clause": "allow-list-exactly-p-tagged-plus-static", "sig": "start", "detail": "the pass at start did not load the list: %r" % sorted(x[:6] for x in first)})
        # the next pass fails; the list changes afterwards; the passes that follow must pick the change up
        state["fail_next"] = True
        w.run(horizon=101)
        state["results"] = [Ev(**make_event("A", 3, NOW, [["p", k[1]]], ""))]
        w.run(horizon=101)
        w.run(horizon=101)
        n = state["calls"]
        got = {x.hex() for x in D.ALLOWED_PUBKEYS}
        if k[1] not in got or k[0] in got:
            viol.append({"case": cid, "clause": "allow-list-exactly-p-tagged-plus-static", "sig": "after-failed-pass",
                         "detail": "two intervals after a failed refresh the allow list is %r, the list events name only %s (%d list queries ran): the periodic driver stopped" % (
                             sorted(x[:6] for x in got), k[1][:6], n)})
        w.call(b.stop(), 10.0)
    finally:
        D.get_storage = real_get
        D.ALLOWED_PUBKEYS.clear()
        D.DENIED_PUBKEYS.clear()
        ns.Config.dynamic_lists = None
        w.close()
    return viol, max(n, 1), True


def run_case(case):
    mode = case[0]
    extra = {}
    if mode == "listdriver":
        viol, n, nt = run_listdriver(case)
    elif mode == "pipe":
        viol, n, nt = run_pipe(case)
    elif mode == "pow":
        viol, n, nt = run_pow(case)
    elif mode == "missing":
        viol, n, nt = run_missing(case)
    elif mode == "lists":
        viol, n, nt = run_lists(case)
    else:
        viol, n, nt, st = run_race(case)
        extra["race_schedules"] = st["n"]
        extra["race_insider_refused_schedules(not judged)"] = st["insider_refused"]
    extra["%s_evaluations" % mode] = n
    return {"id": "%s|%s|%d" % (mode, case[1], case[2]), "viol": viol, "outcome": None, "evals": max(n, 1), "states": max(n, 1),
            "transitions": max(n, 1), "nontrivial": bool(nt), "desc": describe(case), "extra": extra,
            "sample": {"mode": mode, "backend": case[1], "evaluations": n}}


def coverage(tier, agg):
    return {
        "rule": "pipe: %d ordered pipelines of <= 3 of the 10 validators (all 1- and 2-validator pipelines; %s 3-validator ones) x %d boundary events "
                "(size 49/50/51 of max 50, age 999/1000/1001 of 1000 s, future 3599/3600/3601 s, kinds in/out, whitelisted / blacklisted / denied / "
                "unlisted authors, PoW 0/7/8/9 bits of 8 required, 2/3/4 p tags for kinds 1/7/3 with limit 3, service kind by service / other key, bad "
                "signature; too large / too old / blacklisted / low-PoW / badly signed events of an ephemeral, a replaceable, a parameterized and a deletion kind), each PoW-ground to pass the remaining validators; pow: all 257 leading-zero-bit counts x thresholds {0,1,8,9,255,256}; "
                "missing: configured validator with absent parameter (kinds, whitelist, blacklist, PoW, service key); lists: decision table of is_pubkey_allowed over enforced / "
                "unenforced allow and deny lists; listdriver: the real periodic driver of the list builder with one failing pass in between; ListBuilder.run_once over all <= 3-subsets of 8 p-tag shapes x static "
                "keys on/off with a stale entry present; race: every interleaving of the real run_once and is_pubkey_allowed at line%s granularity "
                "with <= 2 preemptions for an outsider (judged) and an insider (reported)." % (
                    len(pipelines(tier)), "all" if tier == "thorough" else "every 9th of the", len(events()), " and opcode" if tier == "thorough" else ""),
        "backends": ["sql", "kv"],
    }


def replay(desc):
    r = run_case((desc["mode"], desc["backend"], desc["lo"], desc["hi"], desc.get("tier", "quick")))
    for v in r["viol"][:30]:
        print(v["clause"], v["detail"][:600])
    return r["viol"]
