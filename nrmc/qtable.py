"""QUERY engine: regular-event universes, filter languages and the REQ answer function shared by
C01, C02, C11, C12.  Every answer is obtained through the real websocket REQ path."""
import json
import itertools
import functools

from . import refmodel as R
from .universe import make_event, grind, delegation_tag, PK

T9 = 1_700_000_000


@functools.lru_cache(None)
def U1():
    """10 regular events, every member collides with another one somewhere (author, kind neighbour, timestamp,
    tag value prefix, id byte order)."""
    u = {}
    u["a_k1_t10_ea"] = make_event("A", 1, 10, [["e", "a"]], "1")
    u["a_k1_t20_eab"] = make_event("A", 1, 20, [["e", "ab"]], "2")
    u["b_k1_t20_eb"] = make_event("B", 1, 20, [["e", "b"], ["p", PK["A"]]], "3")
    u["a_k2_t30_dup"] = make_event("A", 2, 30, [["e", "a"], ["e", "a"], ["e", "ab"], ["t", "it's"]], "4")
    u["b_k256_t30_dlg"] = make_event("B", 256, 30, [delegation_tag("A", "B", "kind=256"), ["t", "é"]], "5")
    u["a_k1_t20_idff"] = grind("A", 1, 20, [], lambda i: i.startswith("ff"), "ff")
    u["a_k255_T_nul"] = make_event("A", 255, T9, [["t", "a\x00b"], ["d", ""]], "6")
    u["b_k1_T1_ea"] = make_event("B", 1, T9 + 1, [["e", "a"], ["p", PK["B"]]], "7")
    u["a_k1_t20_id00"] = grind("A", 1, 20, [], lambda i: i.startswith("00"), "00")
    u["c_k1_t10_eabc"] = make_event("C", 1, 10, [["e", "abc"]], "10")
    return u


@functools.lru_cache(None)
def U2():
    """byte-order neighbours: tag values that extend a requested value through a NUL (they sort *between* the entries of the
    shorter value), several requested values on one event, equal timestamps"""
    u = {}
    u["n_ta_t10"] = make_event("A", 1, 10, [["t", "a"]], "n1")
    u["n_ta_ea_eab_t20"] = make_event("B", 1, 20, [["t", "a"], ["e", "a"], ["e", "ab"]], "n2")
    u["n_taNULz_t5"] = make_event("A", 1, 5, [["t", "a\x00z"]], "n3")
    u["n_tab_t30"] = make_event("A", 1, 30, [["t", "ab"]], "n4")
    u["n_eab_pA_t20"] = make_event("C", 2, 20, [["e", "ab"], ["p", PK["A"]]], "n5")
    u["n_taNUL_t20"] = make_event("A", 1, 20, [["t", "a\x00"]], "n6")
    # one value under two tag names (a condition on #e must not be satisfied by what is listed for #p)
    u["n_eA_pA_t25"] = make_event("C", 2, 25, [["e", PK["A"]], ["p", PK["A"]]], "n8")
    u["n_ta_T"] = make_event("B", 1, T9, [["t", "a"], ["p", PK["A"]]], "n7")
    return u


UNIVERSES = {"U1": U1, "U2": U2}
QUICK_N = 6  # quick tier: subsets of the first 6 members


def members(tier, uname="U1"):
    names = list(UNIVERSES[uname]())
    if uname == "U2":
        return names[:7] if tier == "quick" else names
    return names[:QUICK_N] if tier == "quick" else names


def field_options_U2():
    A, B, C = PK["A"], PK["B"], PK["C"]
    return {
        "authors": [[A], [B], [A, B]],
        "kinds": [[1], [2], [1, 2], [0, 2]],
        "#t": [["a"], ["ab"], ["a", "ab"], ["a\x00z"], ["a\x00"], ["a", "a\x00z"]],
        "#e": [["a"], ["ab"], ["a", "ab"], ["zz"]],
        "#p": [[A]],
    }


def W_single_U2(tier):
    fo = field_options_U2()
    keys = list(fo)
    wins = [{}, {"since": 4}, {"since": 7}, {"since": 10}, {"since": 15}, {"since": 21}, {"until": 7}, {"until": 15}, {"until": 25}, {"since": 7, "until": 25},
            {"since": 15, "until": T9 + 5}]
    out = [dict(w) for w in wins if w]
    for k in keys:
        for v in fo[k]:
            for w in wins:
                f = {k: v}
                f.update(w)
                out.append(f)
    for k1, k2 in itertools.combinations(keys, 2):
        for v1 in fo[k1]:
            for v2 in fo[k2]:
                for w in (wins if tier == "thorough" else wins[:4]):
                    f = {k1: v1, k2: v2}
                    f.update(w)
                    out.append(f)
    for k1, k2, k3 in itertools.combinations(keys, 3):
        for v1 in fo[k1][:3]:
            for v2 in fo[k2][:3]:
                for v3 in fo[k3][:2]:
                    for w in wins[:2]:
                        f = {k1: v1, k2: v2, k3: v3}
                        f.update(w)
                        out.append(f)
    return out


def subsets(names):
    n = len(names)
    for mask in range(2 ** n):
        yield tuple(names[i] for i in range(n) if mask >> i & 1)


# ------------------------------------------------------------------------------------------------
# well-formed filter language W
def field_options():
    u = U1()
    ids = {k: v["id"] for k, v in u.items()}
    A, B, C = PK["A"], PK["B"], PK["C"]
    absent_id = "12" * 32
    return {
        "ids": [[ids["a_k1_t10_ea"]], [ids["a_k1_t20_idff"]], [ids["a_k1_t20_id00"], ids["b_k1_t20_eb"]], [absent_id],
                [ids["a_k1_t20_idff"], ids["a_k1_t20_id00"], ids["a_k255_T_nul"]],
                [ids["a_k1_t20_idff"], ids["b_k1_t20_eb"], ids["a_k1_t20_eab"]]],  # three stored events sharing one created_at
        "authors": [[A], [B], [A, B], [C], [PK["S"]]],
        "kinds": [[1], [2], [1, 2], [255], [256], [255, 256], [7], [0, 1, 257], [1, 3], [254, 256]],  # the last two: one stored kind in the gap
        "#e": [["a"], ["ab"], ["a", "ab"], ["b"], ["abc", "a"], ["zz"]],
        "#p": [[A], [A, B]],
        "#t": [["é"], ["it's"], ["a\x00b", "a"]],
        "#d": [[""]],
    }


TIMES = [10, 20, 30, T9, T9 + 1]


def windows(full=True):
    pts = sorted({t + d for t in TIMES for d in (-1, 0, 1)})
    out = [{}]
    if full:
        out += [{"since": t} for t in pts]
        out += [{"until": t} for t in pts]
        out += [{"since": a, "until": b} for a, b in ((10, 30), (11, 29), (19, 21), (20, 20), (20, T9), (21, T9 + 2), (9, 11))]
        out += [{"until": 0}, {"since": 0}, {"since": 0, "until": 25}]
    else:
        out += [{"since": 20}, {"until": 20}, {"since": 11, "until": 29}]
    return out


def W_single(tier):
    """single-filter language: all combinations of <=3 active non-time fields x windows"""
    fo = field_options()
    keys = list(fo)
    out = []
    for w in windows(True):
        if w and w != {"since": 0}:  # a bare since:0 is a match-all scan, which both backends refuse by policy (R3)
            out.append(dict(w))
    for k in keys:
        for v in fo[k]:
            for w in windows(True):
                f = {k: v}
                f.update(w)
                out.append(f)
    for k1, k2 in itertools.combinations(keys, 2):
        for v1 in fo[k1]:
            for v2 in fo[k2]:
                for w in (windows(True)[::3] if tier == "thorough" else windows(False)):
                    f = {k1: v1, k2: v2}
                    f.update(w)
                    out.append(f)
    if tier == "thorough":
        for k1, k2, k3 in itertools.combinations(keys, 3):
            for v1 in fo[k1][:3]:
                for v2 in fo[k2][:3]:
                    for v3 in fo[k3][:3]:
                        for w in windows(False):
                            f = {k1: v1, k2: v2, k3: v3}
                            f.update(w)
                            out.append(f)
    return out


def W_multi(tier):
    """1..5 filters per REQ from a reduced language"""
    u = U1()
    A, B = PK["A"], PK["B"]
    base = [
        {"kinds": [1]}, {"kinds": [2]}, {"authors": [A]}, {"authors": [B]}, {"#e": ["a"]}, {"#e": ["ab", "b"]},
        {"ids": [u["a_k1_t20_idff"]["id"]]}, {"since": 20}, {"until": 20}, {"authors": [A], "kinds": [1]},
        {"kinds": [1], "#e": ["a"]}, {"kinds": [255, 256], "since": 30},
    ]
    out = []
    for a, b in itertools.combinations(base, 2):
        out.append([a, b])
    out.append([base[0], base[0]])
    trip = list(itertools.combinations(base, 3))
    out += [list(t) for t in (trip if tier == "thorough" else trip[::9])]
    # tag conditions in several filters of one REQ, and a filter the query builder refuses next to valid ones
    tagf = [{"#e": ["a"]}, {"#e": ["b"]}, {"#p": [A]}, {"#t": ["it's"]}, {"kinds": [2], "#e": ["a"]}, {"authors": [B], "#p": [A]}]
    for a, b in itertools.permutations(tagf, 2):
        out.append([a, b])
    out.append([tagf[0], tagf[2], tagf[3]])
    out.append([{"#p": [A], "#e": []}, {"kinds": [1]}])
    out.append([{"kinds": [1]}, {"kinds": []}, {"#e": ["a"]}])
    out.append(base[:4])
    out.append(base[:5])
    out.append(base[3:8])
    out.append(base[:6])  # six filters: kv plans only five (property quantifies over one to five) - not used by C02
    return out


def fkey(filters):
    return json.dumps(filters, sort_keys=True, ensure_ascii=True, separators=(",", ":"))


# ------------------------------------------------------------------------------------------------
def build_store(sess, names, uni=None):
    uni = uni or U1()
    sess.reset()
    for nm in names:
        r = sess.submit(uni[nm])
        if not (r["ok"] and r["ok"][0][2] is True):
            from .env import HarnessError

            raise HarnessError("universe member %s was not accepted: %r" % (nm, r))


def answer(sess, filters):
    """-> (ordered list of returned event objects before EOSE, n_eose, notices, closed)"""
    frames, closed = sess.query(filters)
    evs, eose, notices, others = [], 0, [], []
    for m in frames:
        if isinstance(m, list) and m and m[0] == "EVENT" and len(m) == 3 and eose == 0:
            evs.append(m[2])
        elif isinstance(m, list) and m and m[0] == "EOSE":
            eose += 1
        elif isinstance(m, list) and m and m[0] == "NOTICE":
            notices.append(m[1])
        else:
            others.append(m)
    return evs, eose, notices, closed, others


def strict_matches(f, e):
    return R.matches(f, e, "strict")


def loose_matches(f, e):
    return R.matches(f, e, "loose")
