"""Process bootstrap: import nostr_relay from /repo's working tree (or $NRMC_REPO for mutant
demonstrations), inject the engine doubles, own every source of nondeterminism.

Import this module (and call boot()) before anything imports nostr_relay.storage.*, because
Config.max_limit is bound into class/function defaults at import time.
"""
import os
import sys
import types
import logging
import itertools

REPO = os.environ.get("NRMC_REPO", "/repo")
VERIF = os.path.dirname(os.path.dirname(os.path.abspath(__file__)))

_BOOTED = {}


class HarnessError(Exception):
    """Internal error of the machinery (exit 2) - never a VIOLATION."""


class Clock:
    """Wall clock owned by the harness (time.time() replacement in the modules under test)."""

    def __init__(self, now=1_700_000_000.0):
        self.now = float(now)

    def __call__(self):
        return self.now


CLOCK = Clock()


class CaseTimeout(BaseException):
    """raised by the per-case CPU watchdog (nrmc.common) - and again by the harness loops at their next step if relay code swallowed it"""


WATCHDOG = {"fired": False}


def watchdog_check():
    if WATCHDOG["fired"]:
        raise CaseTimeout()


class TokenSource:
    """Deterministic, recorded replacement of the `secrets` module attribute."""

    def __init__(self):
        self.reset()

    def reset(self):
        self.counter = itertools.count(1)
        self.issued = []
        self.forced = None

    def token_hex(self, n=32):
        if getattr(self, "forced", None) is not None and n <= 2:
            # a scenario forces the short tokens (connection ids) to collide, as a birthday collision among many connections would
            return self.forced[: 2 * n]
        i = next(self.counter)
        # looks random enough for code that only needs distinctness; recorded for C15
        import hashlib

        tok = hashlib.sha256(b"nrmc-token-%d" % i).hexdigest()[: 2 * n]
        self.issued.append(tok)
        return tok


TOKENS = TokenSource()


def boot(max_limit=6000, need_kv=True):
    """Idempotent per process. Returns a namespace of imported modules."""
    if _BOOTED:
        if _BOOTED["max_limit"] != max_limit:
            raise HarnessError(
                "Config.max_limit is import-bound; this worker was booted with %r, asked %r"
                % (_BOOTED["max_limit"], max_limit)
            )
        return _BOOTED["ns"]
    if "nostr_relay" in sys.modules:
        raise HarnessError("nostr_relay imported before env.boot()")
    sys.path.insert(0, REPO)
    logging.disable(logging.CRITICAL)

    # --- doubles for modules missing in /venv ------------------------------------------------
    from . import fakelmdb

    sys.modules["lmdb"] = fakelmdb
    import pip._vendor.msgpack as _msgpack  # genuine pure-python msgpack codec

    sys.modules["msgpack"] = _msgpack

    from nostr_relay.config import Config

    if not os.path.realpath(sys.modules["nostr_relay"].__file__).startswith(os.path.realpath(REPO)):
        raise HarnessError("nostr_relay not imported from %s" % REPO)
    Config.max_limit = max_limit
    # class attribute defaults: make sure instance attrs exist where code does Config.get()
    import nostr_relay.util as util
    import nostr_relay.auth as auth
    import nostr_relay.validators as validators
    import nostr_relay.rate_limiter as rate_limiter
    import nostr_relay.web as web
    import nostr_relay.storage as storage_pkg
    import nostr_relay.storage.base as base
    import nostr_relay.storage.db as db
    import nostr_relay.notifier as notifier
    import nostr_relay.errors as errors

    ns = types.SimpleNamespace(
        Config=Config, util=util, auth=auth, validators=validators, rate_limiter=rate_limiter,
        web=web, storage_pkg=storage_pkg, base=base, db=db, notifier=notifier, errors=errors,
        kv=None,
    )
    # clocks and token sources
    for mod in (auth, validators, db, web):
        mod.time = CLOCK
    # aionostr's Event() stamps created_at with time.time() when none is given (service events): owned by the harness clock too
    import aionostr.event as _aev

    _aev.time = types.SimpleNamespace(time=CLOCK)
    secrets_ns = types.SimpleNamespace(token_hex=TOKENS.token_hex)
    util.secrets = secrets_ns
    auth.secrets = secrets_ns

    if need_kv:
        import nostr_relay.storage.kv as kv
        from . import kvdoubles

        kvdoubles.install(kv)
        kv.time = CLOCK
        ns.kv = kv
    _BOOTED["max_limit"] = max_limit
    _BOOTED["ns"] = ns
    return ns
