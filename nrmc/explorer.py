"""Stateless, deviation-bounded schedule explorer over the real code on a VLoop (engine SCHED).

Choice points and their realism (mirrors asyncio's _run_once batch structure):
  * ready handles run FIFO, one per step; the set of handles of a batch is fixed at the boundary;
  * socket events (next scripted frame of a connection, disconnect, un-stall of a stalled send) and
    timers are taken only at an iteration boundary (that is where the selector is polled);
  * thread completions (validator job, LMDB read-pool job, LMDB writer step, SQLite round trip) may
    happen between any two handles (production delivers them by call_soon_threadsafe).
Default schedule: run ready handles; when idle complete the oldest enabled job; then deliver the next
scripted frame in global script order; then fire the next timer inside the horizon.  A deviation is
any other enabled action.  Exploration enumerates every schedule with at most `bound` deviations;
every execution runs to completion.
"""
import json
from .env import HarnessError, watchdog_check
from .harness import World

DROP = "__DROP__"


class Scenario:
    def __init__(self, name, backend, conns, script, config=None, storage_options=None,
                 allow_drop=(), stall=(), setup=None, horizon=50.0, rate_limits=None, max_limit=6000,
                 allow_timer_deviation=True, finish=None, meta=None, connect=None, job_priority=None, policy="actor"):
        self.name = name
        self.backend = backend
        self.conns = conns  # [(name, addr)]
        self.script = script  # [(conn, frame-or-DROP)] default global order
        self.config = config
        self.storage_options = storage_options
        self.allow_drop = tuple(allow_drop)
        self.stall = tuple(stall)
        self.setup = setup
        self.horizon = horizon
        self.rate_limits = rate_limits
        self.max_limit = max_limit
        self.allow_timer_deviation = allow_timer_deviation
        self.finish = finish
        self.meta = meta or {}
        self.connect = connect            # optional hook(world, name, addr) -> Conn (e.g. a connection served by a second worker)
        self.job_priority = job_priority  # optional list of job kinds: the default schedule serves jobs of earlier kinds first
        # base schedule the deviations are counted from: "actor" = run-to-completion (keep serving the task whose job completed last,
        # deliver the next frame only when nothing is pending); "fair" = deliver every frame as early as possible and serve the
        # pending jobs round-robin over tasks (least recently served first), i.e. maximal interleaving of the handlers
        self.policy = policy


class Execution:
    __slots__ = ("choices", "points", "trace", "world", "deviations", "steps", "scn", "dropped_env")


def _label(a):
    return ":".join(str(x) for x in a)


def _next_frame(w, pending):
    for cn, fr in pending:
        c = w.conns[cn]
        if c.dropped or c.closed_by_relay is not None:
            continue
        return cn
    return None


def run(scn, prefix, keep_trace=False, strict=True):
    # the 1800 s receive timeout is housekeeping: it must not fire while a scenario's setup runs its own (long) drains
    w = World(scn.backend, config=scn.config, storage_options=scn.storage_options,
              rate_limits=scn.rate_limits, max_limit=scn.max_limit, message_timeout=1e300)
    x = Execution()
    x.scn = scn
    x.world = w
    x.choices = []
    x.points = []
    x.trace = []
    x.dropped_env = set()
    loop = w.loop
    try:
        if scn.setup is not None:
            scn.setup(w)
        for name, addr in scn.conns:
            c = scn.connect(w, name, addr) if scn.connect is not None else w.connect(name, addr)
            if name in scn.stall:
                c.stall = True
        pending = list(scn.script)
        pos = 0
        last_actor = None
        served = {}
        t_end = loop.time() + scn.horizon
        guard = 0
        while True:
            guard += 1
            watchdog_check()
            if guard > 200000:
                raise HarnessError("explorer: step horizon exceeded in %s" % scn.name)
            boundary = loop.batch_remaining <= 0
            jobs = loop.enabled_jobs()
            acts = []
            # ---- default action ---------------------------------------------------------------
            if not boundary or loop.has_ready():
                default = ("run",)
            elif scn.policy == "fair" and _next_frame(w, pending) is not None:
                default = ("frame", _next_frame(w, pending))
            elif jobs and scn.policy == "fair":
                k = min(range(len(jobs)), key=lambda i: (served.get(jobs[i].actor, -1), i))
                default = ("job", k)
            elif jobs:
                # keep serving the actor (asyncio task) whose job completed last, if it has another one pending: letting another
                # actor run for many steps while this one waits then costs ONE deviation (a preemption), not one per step
                k = 0
                cand = list(range(len(jobs)))
                if scn.job_priority:
                    rank = {kind: r for r, kind in enumerate(scn.job_priority)}
                    best = min(rank.get(jobs[i].kind, len(rank)) for i in cand)
                    cand = [i for i in cand if rank.get(jobs[i].kind, len(rank)) == best]
                    k = cand[0]
                if last_actor is not None:
                    for i in cand:
                        if jobs[i].actor == last_actor:
                            k = i
                            break
                default = ("job", k)
            else:
                default = None
                for i, (cn, fr) in enumerate(pending):
                    c = w.conns[cn]
                    if c.dropped or c.closed_by_relay is not None:
                        continue
                    default = ("frame", cn)
                    break
                if default is None:
                    for cn in scn.stall:
                        if w.conns[cn].stalled:
                            default = ("unstall", cn)
                            break
                if default is None:
                    t = loop.next_timer()
                    if t is not None and t._when <= t_end:
                        default = ("timer",)
            if default is None:
                if loop.jobs:
                    raise HarnessError("deadlock in %s: jobs pending, none enabled: %r" % (
                        scn.name, [(j.kind, j.label) for j in loop.jobs]))
                break
            acts.append(default)
            # ---- alternatives -----------------------------------------------------------------
            for i in range(len(jobs)):
                a = ("job", i)
                if a != default:
                    acts.append(a)
            if boundary:
                seen = set()
                for cn, fr in pending:
                    if cn in seen:
                        continue
                    seen.add(cn)
                    c = w.conns[cn]
                    if c.dropped or c.closed_by_relay is not None:
                        continue
                    a = ("frame", cn)
                    if a != default:
                        acts.append(a)
                for cn in scn.allow_drop:
                    c = w.conns[cn]
                    if not c.dropped and c.closed_by_relay is None:
                        acts.append(("drop", cn))
                for cn in scn.stall:
                    c = w.conns[cn]
                    if c.stalled and ("unstall", cn) != default:
                        acts.append(("unstall", cn))
                if scn.allow_timer_deviation and default != ("timer",):
                    t = loop.next_timer()
                    if t is not None and t._when <= t_end:
                        acts.append(("timer",))
            # ---- choose -----------------------------------------------------------------------
            if len(acts) > 1:
                if pos < len(prefix):
                    ch = prefix[pos]
                    if ch >= len(acts):
                        if strict:
                            raise HarnessError("replay divergence in %s at point %d: choice %d of %d (%r)" % (
                                scn.name, pos, ch, len(acts), acts))
                        ch = 0
                else:
                    ch = 0
                pos += 1
                x.choices.append(ch)
                x.points.append(len(acts))
                act = acts[ch]
            else:
                act = acts[0]
            if keep_trace:
                x.trace.append(_label(act))
            # ---- perform ----------------------------------------------------------------------
            k = act[0]
            if k == "run":
                loop.run_one_handle()
            elif k == "job":
                last_actor = jobs[act[1]].actor
                served[last_actor] = guard
                loop.complete_job(jobs[act[1]])
            elif k == "frame":
                cn = act[1]
                for i, (pc, fr) in enumerate(pending):
                    if pc == cn:
                        del pending[i]
                        break
                c = w.conns[cn]
                idle = boundary and not loop.has_ready() and not loop.jobs
                if fr == DROP:
                    c.drop(idle)
                else:
                    c.deliver(fr if isinstance(fr, str) else json.dumps(fr, ensure_ascii=False), idle)
            elif k == "drop":
                w.conns[act[1]].drop(boundary and not loop.has_ready() and not loop.jobs)
                x.dropped_env.add(act[1])
            elif k == "unstall":
                w.conns[act[1]].unstall()
            elif k == "timer":
                loop.fire_timer(loop.next_timer())
        if pos < len(prefix) and strict:
            raise HarnessError("replay divergence in %s: prefix longer (%d) than choice points (%d)" % (
                scn.name, len(prefix), pos))
        x.deviations = sum(1 for c in x.choices if c)
        x.steps = loop.steps
        if scn.finish is not None:
            scn.finish(w, x)
        return x
    except BaseException:
        w.close()
        raise


def explore(scn, bound, on_exec, root_prefix=(), cap=None, include_root=True):
    """Enumerate every execution extending root_prefix with at most `bound` further deviations.
    on_exec(execution) is called for each (the world is closed right after).
    Returns (executions, capped)."""
    stack = [(list(root_prefix), bound)]
    n = 0
    first = True
    while stack:
        prefix, budget = stack.pop()
        x = run(scn, prefix)
        try:
            if not (first and not include_root):
                on_exec(x)
                n += 1
            first = False
        finally:
            x.world.close()
        if budget > 0:
            for i in range(len(prefix), len(x.points)):
                for alt in range(1, x.points[i]):
                    stack.append((x.choices[:i] + [alt], budget - 1))
        x.world = None
        if cap is not None and n >= cap:
            return n, True
    return n, False


def first_level(scn):
    """Default execution's choice points -> list of 1-deviation prefixes (used to shard)."""
    x = run(scn, [])
    x.world.close()
    out = []
    for i, npts in enumerate(x.points):
        for alt in range(1, npts):
            out.append(x.choices[:i] + [alt])
    return out, len(x.points)


def rle(choices):
    """run-length encoding of a choice list for case ids"""
    out = []
    i = 0
    while i < len(choices):
        j = i
        while j < len(choices) and choices[j] == choices[i]:
            j += 1
        out.append("%dx%d" % (choices[i], j - i))
        i = j
    return ",".join(out)


def replay_schedule(scn, choices, judge):
    """Re-run exactly one schedule twice without the exploration loop; transcripts must agree; prints them and returns the violations."""
    runs = []
    for _ in range(2):
        x = run(scn, list(choices), keep_trace=True)
        try:
            tr = {cn: [(k, p if isinstance(p, (str, type(None), bool)) else str(p)) for k, _, p in c.transcript] for cn, c in x.world.conns.items()}
            viol = []
            judge(x, viol)
            runs.append((tr, x.trace, viol))
        finally:
            x.world.close()
    if runs[0][0] != runs[1][0]:
        raise HarnessError("replaying the same schedule twice gave different transcripts")
    tr, trace, viol = runs[0]
    print("schedule:", [t for t in trace if t != "run"])
    for cn in sorted(tr):
        for k, p in tr[cn]:
            if k in ("recv", "send", "drop", "close"):
                print("  %-4s %-5s %s" % (cn, k, (p or "")[:140] if isinstance(p, str) else p))
    return viol
