"""Sequential session on one long-lived World per worker (default schedule only): used by the
explicit-state STORE searches and by the QUERY tables.  Everything goes through the real websocket
handler (start_client) or the real storage API; nothing is mocked below the doubles of env.py."""
import json
import sqlite3
from sortedcontainers import SortedDict

from . import fakelmdb
from .env import HarnessError
from .harness import World

_SESS = {}


def session(backend, **kw):
    """One cached session per (backend, config-key) per worker process."""
    key = (backend, json.dumps(kw, sort_keys=True, default=str))
    s = _SESS.get(key)
    if s is None:
        # only one live World per process may own Config; close others
        for k in list(_SESS):
            _SESS.pop(k).close()
        s = Session(backend, **kw)
        _SESS[key] = s
    return s


def close_all():
    for k in list(_SESS):
        _SESS.pop(k).close()


class Session:
    HORIZON = 1e12

    def __init__(self, backend, config=None, storage_options=None, max_limit=6000, subscriber=True, second_worker=False, analysis_full=False):
        self.backend = backend
        self.analysis_full = analysis_full
        self.second_worker = second_worker
        self.st2 = None
        so = dict(storage_options or {})
        so.setdefault("stats_interval", 1e15)  # housekeeping timer out of reach of the virtual clock
        self.w = World(backend, config=config, storage_options=so, max_limit=max_limit, message_timeout=1e300, _session=True)
        self.with_subscriber = subscriber
        self._raw = None
        if analysis_full and backend == "kv":
            from . import kvdoubles

            kvdoubles.analysis_queue_full(self.w.ns.kv, True)
        if backend == "sql":
            # production pools several connections (and hands them out round-robin): open two of them so that successive
            # operations of a sequential session really alternate between connections
            import asyncio

            async def two():
                await asyncio.gather(self.w.storage.get_event("00" * 32), self.w.storage.get_event("11" * 32))

            self.w.call(two(), self.HORIZON)
            if second_worker:
                # a second worker process on the same database file: its own DBStorage object (own engine, own in-memory state), set up
                # while the database is still empty; the query connection of this session is served by it
                ns = self.w.ns
                self.st2 = ns.db.DBStorage(dict(ns.Config.storage))
                self.w.call(self.st2.setup(), self.HORIZON)
        self._open_conns()

    def _open_conns(self):
        w = self.w
        self.cw = w.connect("w", "1.1.1.1")  # submits events
        self.cq = w.connect("q", "3.3.3.3", storage=self.st2)  # queries (through the second worker if there is one)
        self.cs = None
        if self.with_subscriber:
            self.cs = w.connect("s", "2.2.2.2")  # subscribed to (nearly) everything
        w.run()
        if self.cs is not None:
            # a catch-all live subscription (since:1 avoids the match-all refusal policy)
            w.send("s", ["REQ", "all", {"since": 1}])
            self._s_mark = len(self.cs.transcript)

    def close(self):
        if self.analysis_full and self.backend == "kv":
            from . import kvdoubles

            kvdoubles.analysis_queue_full(self.w.ns.kv, False)
        if self._raw is not None:
            self._raw.close()
            self._raw = None
        if self.st2 is not None:
            import sqlalchemy as sa

            try:
                self.w.call(self.st2.close(), 10.0)
            except BaseException:
                pass
            try:
                sa.event.remove(sa.engine.base.Engine, "connect", self.st2._set_sqlite_pragma)
            except Exception:
                pass
            self.st2 = None
        self.w.close()

    # ---------------------------------------------------------------------------------------------
    def reset(self):
        """Empty the store; keep the engine, the storage object and the connections."""
        w = self.w
        if w.backend == "sql":
            if self._raw is None:
                self._raw = sqlite3.connect(w.path, timeout=0, isolation_level=None)
                self._raw.execute("PRAGMA foreign_keys = ON")
            for t in ("tags", "events", "auth", "identity"):
                self._raw.execute("DELETE FROM %s" % t)
        else:
            fakelmdb._ENVS[w.path] = SortedDict({b"\xee": b""})
            w.env.mutlog.clear()
            w.ns.kv.compile_match_from_query.cache_clear()
            self._fresh_kv_writer()
        self._fresh_writer()
        for c in (self.cw, self.cq, self.cs):
            if c is not None:
                del c.transcript[:]
        self._s_mark = 0

    def dump(self):
        return self.w.dump()

    def _fresh_kv_writer(self):
        """a store that was swapped under the relay's feet corresponds to a process restart: the writer thread (and whatever it keeps in
        memory) starts afresh, as LMDBStorage.setup() would start it"""
        from . import kvdoubles

        w = self.w
        st = w.storage
        old = st.writer_thread
        if old.queue._items:
            raise RuntimeError("writer queue not empty at reset")
        kvdoubles.stop_writer(old)
        st.writer_thread = w.ns.kv.WriterThread(st.db, st.stat_collector)
        st.writer_queue = st.writer_thread.queue
        st.writer_queue.on_put = w._on_writer_put
        st.writer_thread.start()

    def _fresh_writer(self):
        """start_client keeps a per-connection throttle that doubles with every refused EVENT: use a fresh
        submitting connection per restored state so that the sleeps stay small."""
        w = self.w
        self.cw.drop()
        w.run(self.HORIZON)
        w.conns.pop(self.cw.name, None)
        self.cw = w.connect("w", "1.1.1.1")
        w.run(self.HORIZON)

    def restore(self, dump):
        w = self.w
        if w.backend == "sql":
            self.reset()
            ev, tg = dump
            bf = bytes.fromhex
            self._raw.executemany(
                "INSERT INTO events(id, created_at, kind, pubkey, tags, sig, content) VALUES (?,?,?,?,?,?,?)",
                [(bf(r[0]), r[1], r[2], bf(r[3]), r[4], bf(r[5]), r[6]) for r in ev])
            self._raw.executemany("INSERT INTO tags(id, name, value) VALUES (?,?,?)",
                                  [(bf(r[0]), r[1], r[2]) for r in tg])
        else:
            fakelmdb._ENVS[w.path] = SortedDict(dump)
            self._fresh_kv_writer()
        self._fresh_writer()

    # ---------------------------------------------------------------------------------------------
    def submit(self, ev, raw_frame=None):
        """EVENT through the websocket. Returns dict(ok=[OK frames], pushed=[event ids pushed to the
        subscriber], other=[other frames on the submitting connection])."""
        w = self.w
        n0 = len(self.cw.transcript)
        s0 = len(self.cs.transcript) if self.cs is not None else 0
        frame = raw_frame if raw_frame is not None else json.dumps(["EVENT", ev], ensure_ascii=False)
        w.send(self.cw, frame, self.HORIZON)
        oks, other = [], []
        for kind, _, text in self.cw.transcript[n0:]:
            if kind == "send":
                try:
                    m = json.loads(text)
                except Exception:
                    other.append(text)
                    continue
                if isinstance(m, list) and m and m[0] == "OK":
                    oks.append(m)
                else:
                    other.append(m)
            elif kind == "close":
                other.append(("close", text))
        pushed = []
        if self.cs is not None:
            for kind, _, text in self.cs.transcript[s0:]:
                if kind == "send":
                    try:
                        m = json.loads(text)
                    except ValueError:
                        # frame well-formedness is C04's business; recover the id so other oracles can go on
                        import re

                        mm = re.search(r'"id":"([0-9a-fA-F]{1,64})"', text)
                        pushed.append({"id": mm.group(1) if mm else None, "_unparseable": text})
                        continue
                    if m[0] == "EVENT":
                        pushed.append(m[2])
        return {"ok": oks, "pushed": pushed, "other": other}

    def add_direct(self, ev):
        """storage.add_event (bulk load / service event path); returns (ok, reason)."""
        w = self.w
        try:
            _, changed = w.call(w.storage.add_event(json.loads(json.dumps(ev))))
            w.run()
            return bool(changed), ""
        except Exception as e:
            w.run()
            return False, "%s: %s" % (type(e).__name__, e)

    def query(self, filters, sub_id="q", raw=False):
        """REQ through the websocket; returns (list of frames before and including EOSE as parsed
        JSON or raw strings, closed?)"""
        w = self.w
        c = self.cq
        if c.closed_by_relay is not None or c.task.done():
            self.cq = c = w.connect("q%d" % w.tick(), "3.3.3.3", storage=self.st2)
            w.run()
        n0 = len(c.transcript)
        w.send(c, json.dumps(["REQ", sub_id] + list(filters), ensure_ascii=False), self.HORIZON)
        frames = [t[2] for t in c.transcript[n0:] if t[0] == "send"]
        closed = c.closed_by_relay is not None or c.task.done()
        if not closed:
            w.send(c, json.dumps(["CLOSE", sub_id]), self.HORIZON)
        if raw:
            return frames, closed
        return [json.loads(f) for f in frames], closed

    def query_ids(self, filters):
        frames, closed = self.query(filters)
        ids = []
        eose = 0
        notice = []
        for m in frames:
            if m[0] == "EVENT":
                ids.append(m[2]["id"])
            elif m[0] == "EOSE":
                eose += 1
            elif m[0] == "NOTICE":
                notice.append(m[1])
        return ids, eose, notice, closed

    def stored_ids(self):
        w = self.w
        if w.backend == "sql":
            return sorted(r[0].lower() for r in self.dump()[0])
        return sorted(k[1:].hex() for k, v in fakelmdb._ENVS[w.path].items() if k[:1] == b"\x00" and len(k) == 33)
