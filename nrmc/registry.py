"""Registry of claimed checks (MANIFEST.json is generated from this by gen_manifest.py)."""

HOOK_COMMITS = []

STORE_NOTE = ("real nostr_relay code from /repo's working tree; SQLite for real behind a same-thread connection shim; LMDB replaced by "
              "an in-memory double (py-lmdb and msgpack C extension are not installed; pure-python msgpack from pip is used); "
              "sequential default schedule; bounds as stated in the evidence file")

CHECKS = {
    "C09": dict(
        level="model_checking", design_ref="DESIGN.md section 4 C09, section 2.7",
        technique="explicit-state BFS over the real storage (state = store dump) with frame-condition oracle + exhaustive one-process histories (all arrival orders of the versions of an address) + deviation-bounded schedule exploration of two connections at once",
        text="Every store state reachable by <= depth submissions over two collision-rich universes of replaceable events is enumerated on "
             "both backends through the real websocket EVENT path; each transition is judged by a frame condition relating pre-state, event "
             "and post-state (older versions gone, nothing else removed, newest of every address kept). Exhaustive within the universes and depth.",
        note=STORE_NOTE),
    "C06": dict(
        level="model_checking", design_ref="DESIGN.md section 4 C06",
        technique="explicit-state BFS over the real storage; per-transition oracle on OK frames, pushes and dumps + exhaustive same-connection histories + deviation-bounded schedule exploration (forged copy vs. genuine event, one event on two connections)",
        text="All submission sequences up to the depth bound over a universe of valid, invalid, duplicate, replaceable, deleting, ephemeral, "
             "long-tag and integer-boundary events are executed through the real websocket handler on both backends with a catch-all subscriber; "
             "every transition is checked for: exactly one OK, OK=true implies retrievable/ephemeral+pushed/superseded, valid never refused, "
             "OK=false leaves no trace, re-submission changes nothing and is not re-broadcast.",
        note=STORE_NOTE + "; 'well-formed event must be accepted' is only demanded for created_at/kind in (0, 2^31); created_at=0 is excluded "
             "because aionostr's Event constructor (third party) replaces it with the current time"),
    "C08": dict(
        level="model_checking", design_ref="DESIGN.md section 4 C08",
        technique="explicit-state BFS over the real storage with frame-condition oracle + exhaustive one-process histories + deviation-bounded schedule exploration of deletions against concurrent submissions and queries",
        text="All histories up to the depth bound mixing events of two authors with deletions referencing own older/newer, foreign, unknown, "
             "several, upper-case and malformed ids; per transition: removed set is a subset of {referenced and same author} and a superset of "
             "the own older referenced ones, which are then no longer served by REQ ids nor by get_event (/e/<id>).",
        note=STORE_NOTE),
    "C10": dict(
        level="model_checking", design_ref="DESIGN.md section 4 C10",
        technique="state invariant evaluated on the full keyspace in every state of explicit-state BFS (plus GC and delete_event transitions, fault-interrupted and one-process histories); the LMDB double is bound to the real liblmdb by exhaustive short operation sequences",
        text="The complete keyspace of the LMDB double is parsed after every transition (adds, replacements, deletions, garbage collection, "
             "delete_event) over the universes of C06/C08/C09/C17 and a tag-shape universe; records and index entries must correspond in both "
             "directions, with expected keys computed by an independent encoder.",
        note=STORE_NOTE + "; crash/fault-interrupted histories are covered by C07's check, which evaluates the same invariant"),
    "C01": dict(
        level="model_checking", design_ref="DESIGN.md section 4 C01",
        technique="exhaustive store x hostile-filter-language and store x well-formed-filter-language tables through the real REQ path (soundness) + statement/code skeleton comparison with a benign twin + deviation-bounded schedule exploration of concurrent queries",
        text="Every filter list of a hostile language (each member of string and non-string alphabets at every filter position, alone, with a "
             "benign condition and in multi-filter REQs) is answered through the real websocket REQ path over a family of stores on both backends: "
             "every returned event must be a stored one, verbatim, matching a permissive NIP-01 reading of some raw filter; the SQL text the engine "
             "received (SQLite executed; PostgreSQL branch at text level) and the Python source compiled by the LMDB residual matcher must have "
             "the same token/AST skeleton as the same shape with benign values, and every SQL string literal must have provenance.",
        note=STORE_NOTE + "; PostgreSQL is covered at SQL-text level only"),
    "C02": dict(
        level="model_checking", design_ref="DESIGN.md section 4 C02",
        technique="exhaustive subset-lattice x filter-language table through the real REQ path, differential against a NIP-01 reference matcher",
        text="For every subset of a collision-rich regular-event universe (stores) and every well-formed filter list of the language (all "
             "combinations of up to three of ids/authors/kinds/#e/#p/#t/#d values x time windows at every timestamp +-1; 2..5-filter REQs) the "
             "answer of the real REQ path is compared with the reference: strictly-inside matches must arrive, k-filter matches at most k times.",
        note=STORE_NOTE),
    "C03": dict(
        level="model_checking", design_ref="DESIGN.md section 4 C03",
        technique="bounded-exhaustive mutation neighbourhood (all single operators, all pairs on distinct fields) of valid events on every admission path",
        text="Every single mutation and every pair of mutations on distinct fields of six valid base events, plus re-signed structurally wrong "
             "variants, is submitted via websocket EVENT and via direct add_event on both backends; nothing non-authentic under an independent "
             "strict verifier may be acknowledged, stored or pushed.",
        note=STORE_NOTE + "; configured validator list is the shipped default (is_signed)"),
    "C04": dict(
        level="model_checking", design_ref="DESIGN.md section 4 C04",
        technique="exhaustive enumeration of Unicode scalar values and typed grammars through every serialisation path, parsed by an independent JSON parser + deviation-bounded schedule exploration of several receivers of one event",
        text="All 1,112,064 Unicode scalar values (thorough) in content, tag value, tag name and subscription id, the tag-element type grammar, the "
             "subscription-id grammar and every frame kind are pushed through live push, stored answer (SQL row / msgpack row -> hand-written "
             "serializer) and HTTP /e/<id>; every frame must parse with the stdlib parser into a NIP-01 shape with the sub id verbatim and the "
             "event field-for-field equal.",
        note=STORE_NOTE + "; events containing U+000B/E/F, U+001A-1F, U+007F are signed with aionostr's own (rapidjson) canonicalisation, see DESIGN.md"),
    "C11": dict(
        level="model_checking", design_ref="DESIGN.md section 4 C11",
        technique="metamorphic relations evaluated exhaustively on the tabulated answers of the real REQ path over the subset lattice",
        text="ans(f,S) is tabulated for every subset S of the universe and every filter of a language closed under dropping a key and splitting "
             "multi-values; then every lattice edge S-{x}->S with x not matching f, every child/parent and narrower/wider filter pair and every "
             "multi-value filter vs its single values is checked. No reference answers are involved.",
        note=STORE_NOTE),
    "C12": dict(
        level="model_checking", design_ref="DESIGN.md section 4 C12",
        technique="exhaustive store x (filter, limit) table through the real REQ path with Config.max_limit=3",
        text="With max_limit=3, every subset of the universe x base filters x limits {absent,0,1,2,3,4,10} (single and multi-filter REQs with mixed "
             "limits) is answered by the real REQ path: events attributable to one filter never exceed min(limit,max_limit), no left-out match is "
             "newer than a sent one, and a limit not smaller than the number of matches truncates nothing.",
        note=STORE_NOTE),
    "C18": dict(
        level="model_checking", design_ref="DESIGN.md section 4 C18",
        technique="explicit-state BFS of the real RateLimiter object under an injected clock against a sliding-window reference",
        text="All (time step, address, command) sequences up to the depth bound over 11 rule configurations are applied to the real limiter with "
             "state deduplication; every decision is compared with a sliding-window reference over the admitted history (with leniency exactly at "
             "one interval), and deque sizes are bounded by the configured rates.",
        note="real RateLimiter from /repo; perf_counter replaced by the harness clock; web.py's call sites are covered by C13/C19 scenarios"),
    "C05": dict(
        level="model_checking", design_ref="DESIGN.md section 4 C05, section 2.1, Appendix A",
        technique="stateless deviation-bounded schedule exploration of the real handler on a controlled event loop (two base schedules: run-to-completion and lock-step) + exhaustive live-vs-stored table",
        text="Eight fan-out scenarios (two or three connections; subscribe during a notification round, replace/CLOSE/disconnect between accept and "
             "push, duplicate submission, ephemeral kind, stalled subscriber) are executed on the real start_client/storage code under every "
             "schedule with at most 1 (quick) / 2 (thorough) deviations from the default; an interval-semantics oracle judges only surely-open and "
             "surely-closed subscriptions. Separately every (event, single filter) pair of the QUERY language is checked for live == stored matching.",
        note=STORE_NOTE + "; scheduling points: loop-iteration boundaries for socket events and timers, between any two handles for thread completions"),
    "C07": dict(
        level="fault_enumeration", design_ref="DESIGN.md section 4 C07, sections 2.3-2.4",
        technique="exhaustive fault and crash-point enumeration over the mutation log of every explored transition",
        text="For every distinct (store, event) transition of a STORE BFS and for delete_event, every engine mutation index gets an injected engine "
             "error and a process kill (plus the point right after commit); after an error the store must equal the state before and a follow-up "
             "event must be applied, after kill+reopen it must equal the state before or after (after, once committed) with consistent tag rows / "
             "index entries, and nothing may have been pushed that is not stored.",
        note=STORE_NOTE + "; atomic commit and recovery of SQLite (WAL) and LMDB themselves are trusted; kills happen at mutation boundaries"),
    "C13": dict(
        level="model_checking", design_ref="DESIGN.md section 4 C13",
        technique="bounded-exhaustive command sequences against a registry model + deviation-bounded schedule exploration (two base schedules) with a stalled sender, a single query slot and fan-out races",
        text="All command sequences up to depth 3 (quick) / 4 (thorough) over an 18-letter alphabet on one connection with subscription_limit=2 are "
             "run on the real handler and compared with a protocol model (EOSE/NOTICE, replacement, limit, pushes only to open subscriptions, "
             "registry size); five race scenarios (CLOSE / same-id REQ / disconnect vs. query and sender tasks) are explored under all schedules "
             "with <= 1 / 2 deviations.",
        note=STORE_NOTE),
    "C14": dict(
        level="model_checking", design_ref="DESIGN.md section 4 C14",
        technique="full-matrix enumeration of role configurations (incl. partial ones) x token roles x actions x delivery paths on the real handler + all ordered identity changes on one connection + all short role-assignment sequences",
        text="Every save-roles x query-roles configuration over {a,r,w}, every token role set obtained through real AUTH handshakes, both actions, "
             "stored and live delivery, three output-validator settings, both backends; plus every sequence of up to three role assignments read back.",
        note=STORE_NOTE),
    "C15": dict(
        level="model_checking", design_ref="DESIGN.md section 4 C15",
        technique="exhaustive neighbourhood of a valid AUTH payload (fields, tag lists, urls, timestamps incl. sub-second and non-numeric) x pre-identity + bounded-exhaustive attempt sequences on two connections + deviation-bounded schedule exploration of two connections authenticating at once",
        text="51 AUTH payload variants (every field and tag, challenges of other/earlier connections, relay URL variants incl. substrings, timestamps at "
             "and around both bounds, malformed shapes) from pre-identity none and authenticated, with relay_urls as list and as the string default, "
             "and all sequences of <= 3 attempts alternating between two connections; identity is observed only through behaviour.",
        note=STORE_NOTE + "; the entropy of the `secrets` module is not decidable by enumeration: only 'one fresh 128-bit draw per connection' is checked"),
    "C16": dict(
        level="model_checking", design_ref="DESIGN.md section 4 C16, section 2.5",
        technique="exhaustive validator-pipeline x boundary-event enumeration + exhaustive thread-interleaving exploration (settrace scheduler) of the list refresh race",
        text="Every ordered pipeline of up to three of the ten validators x 30 boundary events through the real add_event on both backends, all 257 "
             "leading-zero-bit counts x 6 thresholds, missing-configuration cases, ListBuilder.run_once over all small result shapes, and every "
             "interleaving (<= 2 preemptions, line and opcode granularity) of the real run_once with the real is_pubkey_allowed.",
        note=STORE_NOTE + "; reference bounds are written from the docstrings, independent of validators.py"),
    "C19": dict(
        level="model_checking", design_ref="DESIGN.md section 4 C19",
        technique="grammar-exhaustive hostile frames on the real handler (default schedule) + all 1-deviation schedules for a subset, differential against the run without the hostile frame + exhaustive short histories of commands, silences and connection ends under configured rate limits",
        text="Every JSON type at every position of the four commands, of the event object and of the filter object, invalid / huge / deeply nested "
             "texts, embedded between probes, twice, and before a disconnect, with a second well-behaved connection; nothing may escape the handler, "
             "probes must still be answered or the connection be closed without leftovers, and connection 2's transcript must equal the baseline.",
        note=STORE_NOTE),
    "C20": dict(
        level="model_checking", design_ref="DESIGN.md section 4 C20",
        technique="exhaustive enumeration of stream cut placements (<= k cuts over all pipes) and service orders over in-memory pipes driving the real notifier code (clean ends, resets, interleaved senders) + deviation-bounded schedule exploration of two real workers on one database",
        text="The real NotifyServer.handle_notify / NotifyClient.connect run over asyncio.StreamReader pipes whose chunking is chosen by the "
             "enumerator: all placements of <= 2 (quick) / 3 (thorough) cut points over all pipes of five scenarios (coalesced ids, spaced ids, both "
             "directions, three workers, peer leaving mid-stream) x two service orders.",
        note="real notifier.py from /repo; TCP = reliable ordered pipes with arbitrary chunking; worker storages are stubs over a shared event table"),
    "C17": dict(
        level="model_checking", design_ref="DESIGN.md section 4 C17",
        technique="exhaustive subset enumeration of a boundary universe x one real GC transition under an injected clock",
        text="Every subset of a boundary-event universe is stored through the real EVENT path and one real collector pass runs at T (two T values "
             "incl. a digit-count boundary) on both backends; removed/kept sets are compared with the property's wording; leftovers in tag rows "
             "or index keys are checked; ephemeral delivery/non-queryability and the periodic driver surviving an injected error are scenarios.",
        note=STORE_NOTE),
}

_ALL = ["C%02d" % i for i in range(1, 21)]

def _na():
    return [
        {"property_id": p, "reason": "check not built yet in this session (planned: see DESIGN.md section 4)"}
        for p in _ALL if p not in CHECKS
    ]

NOT_APPLICABLE = _na()
