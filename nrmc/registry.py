"""Registry of claimed checks (MANIFEST.json is generated from this by gen_manifest.py)."""

HOOK_COMMITS = []

STORE_NOTE = ("real nostr_relay code from /repo's working tree; SQLite for real behind a same-thread connection shim; LMDB replaced by "
              "an in-memory double (py-lmdb and msgpack C extension are not installed; pure-python msgpack from pip is used); "
              "sequential default schedule; bounds as stated in the evidence file")

CHECKS = {
    "C09": dict(
        level="model_checking", design_ref="DESIGN.md section 4 C09, section 2.7",
        technique="explicit-state BFS over the real storage (state = store dump) with frame-condition oracle",
        text="Every store state reachable by <= depth submissions over two collision-rich universes of replaceable events is enumerated on "
             "both backends through the real websocket EVENT path; each transition is judged by a frame condition relating pre-state, event "
             "and post-state (older versions gone, nothing else removed, newest of every address kept). Exhaustive within the universes and depth.",
        note=STORE_NOTE),
    "C06": dict(
        level="model_checking", design_ref="DESIGN.md section 4 C06",
        technique="explicit-state BFS over the real storage; per-transition oracle on OK frames, pushes and dumps",
        text="All submission sequences up to the depth bound over a universe of valid, invalid, duplicate, replaceable, deleting, ephemeral, "
             "long-tag and integer-boundary events are executed through the real websocket handler on both backends with a catch-all subscriber; "
             "every transition is checked for: exactly one OK, OK=true implies retrievable/ephemeral+pushed/superseded, valid never refused, "
             "OK=false leaves no trace, re-submission changes nothing and is not re-broadcast.",
        note=STORE_NOTE + "; 'well-formed event must be accepted' is only demanded for created_at/kind in (0, 2^31); created_at=0 is excluded "
             "because aionostr's Event constructor (third party) replaces it with the current time"),
    "C08": dict(
        level="model_checking", design_ref="DESIGN.md section 4 C08",
        technique="explicit-state BFS over the real storage with frame-condition oracle",
        text="All histories up to the depth bound mixing events of two authors with deletions referencing own older/newer, foreign, unknown, "
             "several, upper-case and malformed ids; per transition: removed set is a subset of {referenced and same author} and a superset of "
             "the own older referenced ones, which are then no longer served by REQ ids nor by get_event (/e/<id>).",
        note=STORE_NOTE),
    "C10": dict(
        level="model_checking", design_ref="DESIGN.md section 4 C10",
        technique="state invariant evaluated on the full keyspace in every state of explicit-state BFS (plus GC and delete_event transitions)",
        text="The complete keyspace of the LMDB double is parsed after every transition (adds, replacements, deletions, garbage collection, "
             "delete_event) over the universes of C06/C08/C09/C17 and a tag-shape universe; records and index entries must correspond in both "
             "directions, with expected keys computed by an independent encoder.",
        note=STORE_NOTE + "; crash/fault-interrupted histories are covered by C07's check, which evaluates the same invariant"),
    "C17": dict(
        level="model_checking", design_ref="DESIGN.md section 4 C17",
        technique="exhaustive subset enumeration of a boundary universe x one real GC transition under an injected clock",
        text="Every subset of a boundary-event universe is stored through the real EVENT path and one real collector pass runs at T (two T values "
             "incl. a digit-count boundary) on both backends; removed/kept sets are compared with the property's wording; leftovers in tag rows "
             "or index keys are checked; ephemeral delivery/non-queryability and the periodic driver surviving an injected error are scenarios.",
        note=STORE_NOTE),
}

_ALL = ["C%02d" % i for i in range(1, 21)]

def _na():
    return [
        {"property_id": p, "reason": "check not built yet in this session (planned: see DESIGN.md section 4)"}
        for p in _ALL if p not in CHECKS
    ]

NOT_APPLICABLE = _na()
