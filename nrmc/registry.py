"""Registry of claimed checks (MANIFEST.json is generated from this by gen_manifest.py)."""

HOOK_COMMITS = []

CHECKS = {}

_ALL = ["C%02d" % i for i in range(1, 21)]

def _na():
    return [
        {"property_id": p, "reason": "check not built yet in this session (planned: see DESIGN.md section 4)"}
        for p in _ALL if p not in CHECKS
    ]

NOT_APPLICABLE = _na()
