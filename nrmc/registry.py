"""Registry of claimed checks (MANIFEST.json is generated from this by gen_manifest.py)."""

HOOK_COMMITS = []

STORE_NOTE = ("real nostr_relay code from /repo's working tree; SQLite for real behind a same-thread connection shim; LMDB replaced by "
              "an in-memory double (py-lmdb and msgpack C extension are not installed; pure-python msgpack from pip is used); "
              "sequential default schedule; bounds as stated in the evidence file")

CHECKS = {
    "C09": dict(
        level="model_checking", design_ref="DESIGN.md section 4 C09, section 2.7",
        technique="explicit-state BFS over the real storage (state = store dump) with frame-condition oracle",
        text="Every store state reachable by <= depth submissions over two collision-rich universes of replaceable events is enumerated on "
             "both backends through the real websocket EVENT path; each transition is judged by a frame condition relating pre-state, event "
             "and post-state (older versions gone, nothing else removed, newest of every address kept). Exhaustive within the universes and depth.",
        note=STORE_NOTE),
}

_ALL = ["C%02d" % i for i in range(1, 21)]

def _na():
    return [
        {"property_id": p, "reason": "check not built yet in this session (planned: see DESIGN.md section 4)"}
        for p in _ALL if p not in CHECKS
    ]

NOT_APPLICABLE = _na()
