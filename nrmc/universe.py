"""Deterministic keys and events. BIP-340 signing with aux=None is deterministic, so every event id
and signature below is a constant of this file."""
import json
import hashlib
import functools
from coincurve import PrivateKey, PublicKeyXOnly

SK = {
    "A": "f6d7c79924aa815d0d408bc28c1a23af208209476c1b7691df96f7d7b72a2753",
    "B": "8f50290eaa19f3cefc831270f3c2b5ddd3f26d11b0b72bc957067d6811bc618d",
    "C": "0b1c2d3e4f5061728394a5b6c7d8e9f00112233445566778899aabbccddeeff1",
    "S": "9627da965699a2a3048f97b77df5047e8cd0d11daca75e7687d0b28b65416a3c",  # service key of test_config
}


for _i in range(1, 9):
    SK["K%d" % _i] = hashlib.sha256(b"nrmc-key-%d" % _i).hexdigest()


@functools.lru_cache(None)
def pubkey(name):
    return PrivateKey(bytes.fromhex(SK[name])).public_key_xonly.format().hex()


PK = {n: pubkey(n) for n in SK}


def serialize(pubkey_hex, created_at, kind, tags, content):
    """NIP-01 canonical serialisation with the stdlib encoder (independent of rapidjson)."""
    return json.dumps([0, pubkey_hex, created_at, kind, tags, content],
                      separators=(",", ":"), ensure_ascii=False).encode("utf8", "surrogatepass")


def compute_id(pubkey_hex, created_at, kind, tags, content):
    return hashlib.sha256(serialize(pubkey_hex, created_at, kind, tags, content)).hexdigest()


@functools.lru_cache(None)
def _sign(sk_hex, id_hex):
    return PrivateKey(bytes.fromhex(sk_hex)).sign_schnorr(bytes.fromhex(id_hex), None).hex()


def make_event(author, kind=1, created_at=1_700_000_000, tags=None, content="", sk=None, pk=None, raw_tags=False):
    """Returns the event as a plain dict (what a client would send).  raw_tags: sign the tags member exactly as given (it need not
    be a list of lists)."""
    if not raw_tags:
        tags = [list(t) for t in (tags or [])]
    pk = pk or PK[author]
    sk = sk or SK[author]
    eid = compute_id(pk, created_at, kind, tags, content)
    return {
        "id": eid,
        "pubkey": pk,
        "created_at": created_at,
        "kind": kind,
        "tags": tags,
        "content": content,
        "sig": _sign(sk, eid),
    }


def delegation_tag(delegator, delegatee, conditions="kind=1"):
    """Valid NIP-26 tag: delegator authorises delegatee."""
    to_sign = ":".join(["nostr", "delegation", PK[delegatee], conditions]).encode()
    sig = PrivateKey(bytes.fromhex(SK[delegator])).sign_schnorr(hashlib.sha256(to_sign).digest(), None).hex()
    return ["delegation", PK[delegator], conditions, sig]


def verify_schnorr(pk_hex, msg32, sig_hex):
    try:
        return PublicKeyXOnly(bytes.fromhex(pk_hex)).verify(bytes.fromhex(sig_hex), msg32)
    except Exception:
        return False


def grind(author, kind, created_at, tags, want, content_prefix="", limit=2_000_000):
    """Find a content nonce so that the event id satisfies want(id_hex). Deterministic."""
    for n in range(limit):
        c = "%s%d" % (content_prefix, n)
        if want(compute_id(PK[author], created_at, kind, [list(t) for t in tags], c)):
            return make_event(author, kind, created_at, tags, c)
    raise RuntimeError("grind failed")
