"""Same-thread SQLite connection implementing the aiosqlite surface SQLAlchemy's adapter touches.

Every execute/executemany/commit/rollback is one explorer-visible *job* on the VLoop (this is the
thread hop of production aiosqlite).  The statement runs on a stdlib sqlite3 connection when the
job is completed.  Statement log, fault plan (engine error / process kill at the k-th statement)
and a static model of SQLite's single-writer lock (a write statement is not enabled while another
connection has an open write transaction) live here.
"""
import os
import re
import sqlite3

from .vloop import current_vloop
from .env import HarnessError


class SqlCrash(BaseException):
    """process kill at a statement boundary"""


_WRITE_RE = re.compile(r"^\s*(INSERT|UPDATE|DELETE|REPLACE|CREATE|DROP|ALTER)\b", re.I)


class SqlWorld:
    """One database file + the set of raw connections opened on it."""

    def __init__(self, path):
        self.path = path
        self.conns = []
        self.log = []  # (conn#, kind, sql, params)
        self.errors = []  # (conn#, sql, repr(exception)) raised by the engine
        self.fault = None
        self.fetch_fault = None
        self.counting = False
        self.count = 0
        self.conn_seq = 0
        self.record = True

    def creator(self, *a, **kw):
        return ShimConnect(self)

    def arm(self, mode, at):
        self.fault = {"mode": mode, "at": at, "seen": 0, "fired": False}

    def disarm(self):
        self.fault = None

    def _tick(self, kind, sql):
        self.count += 1
        f = self.fault
        if f is not None and not f["fired"]:
            f["seen"] += 1
            if f["seen"] == f["at"]:
                f["fired"] = True
                if f["mode"] == "error":
                    raise sqlite3.OperationalError("injected engine failure at statement %d" % f["at"])
                raise SqlCrash("injected kill at statement %d (%s)" % (f["at"], kind))

    def other_writer(self, me):
        for c in self.conns:
            if c is not me and c.raw is not None and c.raw.in_transaction:
                return True
        return False

    def kill(self):
        """Process death: every raw connection is closed without commit."""
        for c in list(self.conns):
            if c.raw is not None:
                try:
                    c.raw.close()
                except Exception:
                    pass
                c.raw = None
        self.conns.clear()


class ShimConnect:
    """What aiosqlite.connect() returns: awaitable -> connection."""

    def __init__(self, world):
        self.world = world

    def __await__(self):
        return self._open().__await__()

    async def _open(self):
        conn = ShimConnection(self.world)
        loop = current_vloop()
        await loop.hop("sqlopen", conn._open_raw, label="connect")
        return conn


class _TxQueue:
    """stands in for aiosqlite's Connection._tx (used by SQLAlchemy's isolation_level setter)."""

    def __init__(self, conn):
        self.conn = conn

    def put_nowait(self, item):
        future, function = item
        loop = current_vloop()

        def run():
            return function()

        inner = loop.hop("sqlmisc", run, label="isolation_level")

        def done(f):
            if future.done():
                return
            if f.exception() is not None:
                future.set_exception(f.exception())
            else:
                future.set_result(f.result())

        inner.add_done_callback(done)


class ShimConnection:
    def __init__(self, world):
        self.world = world
        world.conn_seq += 1
        self.n = world.conn_seq
        self.raw = None
        self._conn = None
        self._tx = _TxQueue(self)

    def _open_raw(self):
        self.raw = sqlite3.connect(self.world.path, timeout=0, check_same_thread=False)
        self._conn = self.raw
        self.world.conns.append(self)
        return self

    @property
    def isolation_level(self):
        return self.raw.isolation_level

    @isolation_level.setter
    def isolation_level(self, v):
        self.raw.isolation_level = v

    @property
    def in_transaction(self):
        return self.raw.in_transaction

    def _enabled_for(self, sql):
        if sql is not None and _WRITE_RE.match(sql):
            return lambda: not self.world.other_writer(self)
        return None

    async def cursor(self):
        return ShimCursor(self)

    async def execute(self, sql, parameters=None):
        cur = ShimCursor(self)
        await cur.execute(sql, parameters)
        return cur

    async def create_function(self, *a, **kw):
        self.raw.create_function(*a, **kw)

    async def _simple(self, kind):
        w = self.world
        loop = current_vloop()

        def run():
            if self.raw is None:
                raise sqlite3.ProgrammingError("closed")
            had = self.raw.in_transaction
            if w.record:
                w.log.append((self.n, kind, None, None))
            if kind == "commit":
                w._tick(kind, None)  # a fault at ROLLBACK is not modelled (the connection would be unusable either way)
            getattr(self.raw, kind)()

        await loop.hop("sql", run, label=kind, conn=self.n)

    async def commit(self):
        await self._simple("commit")

    async def rollback(self):
        await self._simple("rollback")

    async def close(self):
        if self.raw is not None:
            try:
                self.raw.close()
            finally:
                self.raw = None
                if self in self.world.conns:
                    self.world.conns.remove(self)

    def stop(self):
        if self.raw is not None:
            try:
                self.raw.close()
            except Exception:
                pass
            self.raw = None
            if self in self.world.conns:
                self.world.conns.remove(self)


class ShimCursor:
    def __init__(self, conn):
        self.conn = conn
        self.cur = None
        self.description = None
        self.rowcount = -1
        self.lastrowid = None
        self.arraysize = 1

    async def _run(self, kind, sql, params):
        c = self.conn
        w = c.world
        loop = current_vloop()

        def run():
            if c.raw is None:
                raise sqlite3.ProgrammingError("Cannot operate on a closed database.")
            if w.record:
                w.log.append((c.n, kind, sql, params))
            if not sql.lstrip().upper().startswith("PRAGMA"):
                w._tick(kind, sql)
            cur = c.raw.cursor()
            try:
                if kind == "executemany":
                    cur.executemany(sql, params)
                elif params is None:
                    cur.execute(sql)
                else:
                    cur.execute(sql, params)
            except sqlite3.OperationalError as e:
                if "locked" in str(e):
                    raise HarnessError("unmodelled SQLITE_BUSY on %r" % (sql,)) from e
                w.errors.append((c.n, sql, repr(e)))
                raise
            except Exception as e:
                w.errors.append((c.n, sql, repr(e)))
                raise
            self.cur = cur
            self.description = cur.description
            self.rowcount = cur.rowcount
            self.lastrowid = cur.lastrowid

        await loop.hop("sql", run, enabled=c._enabled_for(sql), label=sql.strip()[:40], conn=c.n)

    async def execute(self, sql, parameters=None):
        await self._run("execute", sql, parameters)
        return self

    async def executemany(self, sql, seq):
        await self._run("executemany", sql, list(seq))
        return self

    # a result that is being read can fail too (SqlWorld.fetch_fault = {"at": k}: the k-th row of the results read from now on is never
    # delivered - the fetch that would deliver it raises - and the rows before it are delivered in full)
    def _rows(self, n):
        buf = getattr(self, "_pend", None) or []
        if n is None:
            rows, buf = buf + list(self.cur.fetchall()), []
        else:
            if n > len(buf):
                buf = buf + list(self.cur.fetchmany(n - len(buf)))
            rows, buf = buf[:n], buf[n:]
        self._pend = buf
        f = getattr(self.conn.world, "fetch_fault", None)
        if f is None or f.get("fired") or not rows:
            return rows
        room = f["at"] - 1 - f.get("seen", 0)
        if room <= 0:
            f["fired"] = True
            raise sqlite3.OperationalError("injected engine failure while the result was being read (row %d)" % f["at"])
        if len(rows) > room:
            self._pend = rows[room:] + self._pend
            rows = rows[:room]
        f["seen"] = f.get("seen", 0) + len(rows)
        return rows

    async def fetchall(self):
        out = []
        while True:
            rows = self._rows(None if not out and not getattr(self, "_pend", None) else 10 ** 9)
            if not rows:
                return out
            out += rows
            if getattr(self.conn.world, "fetch_fault", None) is None:
                return out

    async def fetchone(self):
        r = self._rows(1)
        return r[0] if r else None

    async def fetchmany(self, size=None):
        return self._rows(size if size is not None else self.arraysize)

    async def close(self):
        if self.cur is not None:
            self.cur.close()
            self.cur = None


def dump(path):
    """Canonical dump of the durable content (events + tags rows, sorted)."""
    raw = sqlite3.connect(path, timeout=0)
    try:
        ev = raw.execute(
            "SELECT hex(id), created_at, kind, hex(pubkey), tags, hex(sig), content FROM events"
        ).fetchall()
        tg = raw.execute("SELECT hex(id), name, value FROM tags").fetchall()
    finally:
        raw.close()
    return (tuple(sorted(ev)), tuple(sorted(tg, key=repr)))


def scratch_root():
    r = os.environ.get("NRMC_SCRATCH")
    if not r:
        r = "/dev/shm/nrmc-%d" % os.getpid()
        os.environ["NRMC_SCRATCH"] = r  # inherited by forked workers
    return r


def scratch_dir():
    d = os.path.join(scratch_root(), str(os.getpid()))
    os.makedirs(d, exist_ok=True)
    return d
