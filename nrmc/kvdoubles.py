"""Doubles that put the LMDB backend's threads under the explorer's control.

* The writer is a REAL thread running the real WriterThread.run(), but it only runs while it holds a *grant*: every call
  of queue.get() parks the thread until the controller grants one more item (the controller then waits until the thread
  parks again, finishes or dies).  The thread keeps its locals while parked, so code that takes several items before
  writing (a batching writer) behaves as it would under a real scheduler; the unchanged code processes exactly one task
  per grant.  The LMDB double is only ever touched by one thread at a time (the controller sleeps while the writer runs).
* kv.futures.ThreadPoolExecutor -> JobExecutor: submit() registers a job with the running VLoop; the explorer decides when
  it completes (a read transaction sees the snapshot at its begin, so running it as one step is faithful).
* kv.analyze -> no-op (it only feeds a logging thread).

A *writer step* = grant the parked writer thread exactly one queued task.
"""
import types
import threading
import collections
import concurrent.futures

from .env import HarnessError

_REAL_THREAD = threading.Thread


class GrantQueue:
    """queue.SimpleQueue double.  get() parks the calling (writer) thread until a grant arrives."""

    def __init__(self, maxsize=0):
        self._items = collections.deque()
        self.on_put = None
        self._grant = threading.Semaphore(0)
        self._parked = threading.Semaphore(0)
        self.owner = None          # the thread object serving this queue
        self.stopping = False

    # -- producer side (event loop thread) ------------------------------------------------------------
    def put(self, item, block=True, timeout=None):
        self._items.append(item)
        if self.on_put is not None:
            self.on_put(item)

    put_nowait = put

    def qsize(self):
        return len(self._items)

    def empty(self):
        return not self._items

    # -- consumer side (writer thread) ---------------------------------------------------------------
    def get(self, block=True, timeout=None):
        # park: tell the controller we are waiting, then wait for a grant
        self._parked.release()
        self._grant.acquire()
        if self.stopping and not self._items:
            return None
        if not self._items:
            raise HarnessError("grant without a queued item")
        return self._items.popleft()

    def get_nowait(self):
        if not self._items:
            import queue as _q

            raise _q.Empty()
        return self._items.popleft()


class ControlledThread(_REAL_THREAD):
    """threading.Thread whose run() only progresses under grants of its queue (see GrantQueue)."""

    def __init__(self, *a, **kw):
        super().__init__(*a, **kw)
        self.daemon = True
        self.died_with = None
        self._started_ctl = False

    def start(self):
        q = getattr(self, "queue", None)
        if isinstance(q, GrantQueue):
            q.owner = self
        real_run = self.run

        def guarded():
            try:
                real_run()
            except BaseException as e:  # a Crash (process kill) terminates the writer
                self.died_with = e
            finally:
                if isinstance(q, GrantQueue):
                    q._parked.release()

        self.run = guarded
        self._started_ctl = True
        super().start()
        if isinstance(q, GrantQueue):
            # wait until the thread parks in its first get()
            if not q._parked.acquire(timeout=30):
                raise HarnessError("writer thread did not park")

    def join(self, timeout=None):
        q = getattr(self, "queue", None)
        if not isinstance(q, GrantQueue) or not self._started_ctl:
            return
        # storage.close(): everything that is queued (incl. the None sentinel) is processed
        guard = 0
        while self.is_alive() and q._items:
            writer_step(self)
            guard += 1
            if guard > 100000:
                raise HarnessError("writer does not drain")
        if self.is_alive():
            stop_writer(self)


def writer_step(writer):
    """Grant the parked writer exactly one queued task; returns when it parks again (or ended).  A process-kill marker
    raised inside the writer (fakelmdb.Crash) is re-raised here, in the controller."""
    q = writer.queue
    if not q._items:
        return None
    if not writer.is_alive():
        if writer.died_with is not None:
            raise writer.died_with
        return None
    task = q._items[0]
    q._grant.release()
    if not q._parked.acquire(timeout=60):
        raise HarnessError("writer thread did not park again")
    if writer.died_with is not None and not writer.is_alive():
        e = writer.died_with
        raise e
    if not writer.is_alive() and writer.died_with is not None:
        raise writer.died_with
    return task


def stop_writer(writer):
    """make the parked thread leave run() (used at teardown)"""
    q = getattr(writer, "queue", None)
    if not isinstance(q, GrantQueue) or not writer.is_alive():
        return
    q.stopping = True
    q._items.clear()
    writer.running = False
    q._grant.release()
    writer._stop_requested = True
    _REAL_THREAD.join(writer, 5)


class JobExecutor:
    """ThreadPoolExecutor double: the job runs when the explorer completes it."""

    def __init__(self, max_workers=None, **kw):
        self.shut = False

    def submit(self, fn, *args, **kwargs):
        from .vloop import current_vloop

        cf = concurrent.futures.Future()
        loop = current_vloop()
        loop.add_thread_job("kvread", lambda: fn(*args, **kwargs), cf)
        return cf

    def shutdown(self, wait=True, **kw):
        self.shut = True


def install(kv):
    kv.threading = types.SimpleNamespace(Thread=ControlledThread)
    kv.queue = types.SimpleNamespace(SimpleQueue=GrantQueue, Queue=GrantQueue, Full=Exception, Empty=Exception)
    kv.futures = types.SimpleNamespace(ThreadPoolExecutor=JobExecutor)
    kv.WriterThread.__bases__ = (ControlledThread,)

    def _analyze(plans, later=True, log=None):
        return None

    _analyze.ANALYSIS_THREAD = None
    if not hasattr(kv, "_real_analyze"):
        kv._real_analyze = kv.analyze
        kv._real_analysis_queue = kv.ANALYSIS_QUEUE
    kv.analyze = _analyze
    kv._stub_analyze = _analyze


class FullQueue:
    """the analysis queue of a busy process: always full (its consumer thread takes one entry per analysis_delay)"""

    def put_nowait(self, item):
        import queue as _q

        raise _q.Full()

    put = put_nowait


def analysis_queue_full(kv, on):
    """on: the real analyze() with an analysis queue that is always full and no consumer thread; off: back to the no-op"""
    if on:
        kv.ANALYSIS_QUEUE = FullQueue()
        kv._real_analyze.ANALYSIS_THREAD = object()  # "already started"
        kv.analyze = kv._real_analyze
    else:
        kv.ANALYSIS_QUEUE = kv._real_analysis_queue
        kv.analyze = kv._stub_analyze
