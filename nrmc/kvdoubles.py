"""Doubles that put the LMDB backend's threads under the explorer's control.

* kv.threading.Thread   -> InertThread: start() starts nothing.
* kv.queue.SimpleQueue  -> StepQueue: get() hands out at most `budget` items, then leaves the
  caller (the real WriterThread.run body) through a private BaseException.
* kv.futures.ThreadPoolExecutor -> JobExecutor: submit() registers a job with the running VLoop;
  the explorer decides when it completes.
* kv.analyze -> no-op (it only feeds a logging thread).

A *writer step* = run the real WriterThread.run() for exactly one queued task.
"""
import types
import asyncio
import collections
import concurrent.futures


class _StepDone(BaseException):
    pass


class InertThread:
    daemon = False

    def __init__(self, *a, target=None, args=(), kwargs=None, **kw):
        self._target = target
        self._started = False

    def start(self):
        self._started = True

    def is_alive(self):
        return self._started

    def join(self, timeout=None):
        # storage.close(): drain everything that is queued (None sentinel ends the loop)
        q = getattr(self, "queue", None)
        if q is not None and hasattr(self, "run"):
            while q._items:
                writer_step(self)


class StepQueue:
    def __init__(self, maxsize=0):
        self._items = collections.deque()
        self.budget = 0
        self.on_put = None

    def put(self, item, block=True, timeout=None):
        self._items.append(item)
        if self.on_put is not None:
            self.on_put(item)

    put_nowait = put

    def get(self, block=True, timeout=None):
        if self.budget <= 0 or not self._items:
            raise _StepDone()
        self.budget -= 1
        return self._items.popleft()

    def qsize(self):
        return len(self._items)

    def empty(self):
        return not self._items


def writer_step(writer):
    """Process exactly one queued task with the real WriterThread.run() body.
    Returns the task processed (or None if queue empty). fakelmdb.Crash propagates."""
    q = writer.queue
    if not q._items:
        return None
    task = q._items[0]
    q.budget = 1
    try:
        writer.run()
    except _StepDone:
        pass
    finally:
        q.budget = 0
    return task


class JobExecutor:
    """ThreadPoolExecutor double: the job runs when the explorer completes it."""

    def __init__(self, max_workers=None, **kw):
        self.shut = False

    def submit(self, fn, *args, **kwargs):
        from .vloop import current_vloop

        cf = concurrent.futures.Future()
        loop = current_vloop()
        loop.add_thread_job("kvread", lambda: fn(*args, **kwargs), cf)
        return cf

    def shutdown(self, wait=True, **kw):
        self.shut = True


def install(kv):
    kv.threading = types.SimpleNamespace(Thread=InertThread)
    kv.queue = types.SimpleNamespace(SimpleQueue=StepQueue, Queue=StepQueue, Full=Exception)
    kv.futures = types.SimpleNamespace(ThreadPoolExecutor=JobExecutor)
    kv.WriterThread.__bases__ = (InertThread,)

    def _analyze(plans, later=True, log=None):
        return None

    _analyze.ANALYSIS_THREAD = None
    kv.analyze = _analyze
