"""Controlled asyncio event loop (virtual clock, no selector, no threads) + pending-job registry.

The loop never runs by itself: a driver pops `_ready` / `_scheduled` by hand (see explorer.py).
Everything that production hands to another OS thread (validator executor, LMDB read pool, LMDB
writer thread, aiosqlite worker thread) becomes a *job* whose completion is a driver decision.
"""
import asyncio
import heapq
import concurrent.futures
from asyncio import events

from .env import HarnessError, watchdog_check

_CURRENT = []


def current_vloop():
    if not _CURRENT:
        raise HarnessError("no VLoop active")
    return _CURRENT[-1]


class Job:
    __slots__ = ("kind", "fn", "cf", "afut", "seq", "enabled", "label", "conn", "actor")

    def __init__(self, kind, fn, cf=None, afut=None, enabled=None, label="", conn=None):
        self.kind = kind
        self.fn = fn
        self.cf = cf  # concurrent.futures.Future to resolve (thread-pool style)
        self.afut = afut  # asyncio future to resolve (awaitable-hop style)
        self.enabled = enabled
        self.label = label
        self.conn = conn
        self.seq = 0
        self.actor = None

    def is_enabled(self):
        return True if self.enabled is None else bool(self.enabled())


class VLoop(asyncio.BaseEventLoop):
    def __init__(self, start=1000.0):
        super().__init__()
        self._vtime = float(start)
        self.jobs = []
        self._jobseq = 0
        self.handler_errors = []
        self.set_exception_handler(self._on_exc)
        self.batch_remaining = 0
        self.steps = 0
        import weakref

        self._actors = weakref.WeakKeyDictionary()  # task -> serial number (ids of dead tasks may be reused by CPython)
        self._actors_gone = 0

    # ---- BaseEventLoop overrides ------------------------------------------------------------
    def time(self):
        return self._vtime

    def _write_to_self(self):
        pass

    def _process_events(self, event_list):
        pass

    def _on_exc(self, loop, context):
        self.handler_errors.append(
            {"message": context.get("message"), "exception": repr(context.get("exception"))}
        )

    def run_in_executor(self, executor, func, *args):
        cf = concurrent.futures.Future()
        self.add_thread_job("exec", lambda: func(*args), cf)
        return asyncio.wrap_future(cf, loop=self)

    # ---- jobs -------------------------------------------------------------------------------
    def _add(self, job):
        self._jobseq += 1
        job.seq = self._jobseq
        # the asyncio task on whose behalf the other thread works (the "thread" of preemption bounding)
        try:
            t = asyncio.current_task(self)
        except RuntimeError:
            t = None
        if t is None:
            job.actor = None
        else:
            a = self._actors.get(t)
            if a is None:
                self._actors_gone += 1
                a = self._actors[t] = self._actors_gone
            job.actor = a
        self.jobs.append(job)
        return job

    def add_thread_job(self, kind, fn, cf, enabled=None, label=""):
        return self._add(Job(kind, fn, cf=cf, enabled=enabled, label=label))

    def add_step_job(self, kind, fn, enabled=None, label=""):
        """A job with nobody waiting for its result (e.g. an LMDB writer-thread step)."""
        return self._add(Job(kind, fn, enabled=enabled, label=label))

    def hop(self, kind, fn, enabled=None, label="", conn=None):
        """awaitable thread hop: `result = await loop.hop('sql', fn)`"""
        afut = self.create_future()
        self._add(Job(kind, fn, afut=afut, enabled=enabled, label=label, conn=conn))
        return afut

    def enabled_jobs(self):
        return [j for j in self.jobs if j.is_enabled()]

    def complete_job(self, job):
        self.jobs.remove(job)
        try:
            res = job.fn()
            exc = None
        except Exception as e:  # BaseException (Crash) propagates to the driver on purpose
            res = None
            exc = e
        if job.cf is not None:
            if job.cf.set_running_or_notify_cancel():
                if exc is not None:
                    job.cf.set_exception(exc)
                else:
                    job.cf.set_result(res)
        elif job.afut is not None:
            if not job.afut.done():
                if exc is not None:
                    job.afut.set_exception(exc)
                else:
                    job.afut.set_result(res)
        elif exc is not None:
            self.handler_errors.append({"message": "step job raised", "exception": repr(exc)})

    # ---- manual stepping --------------------------------------------------------------------
    def activate(self):
        _CURRENT.append(self)
        events._set_running_loop(self)

    def deactivate(self):
        events._set_running_loop(None)
        if _CURRENT and _CURRENT[-1] is self:
            _CURRENT.pop()

    def has_ready(self):
        return bool(self._ready)

    def start_batch(self):
        self.batch_remaining = len(self._ready)

    def run_one_handle(self):
        """Run the next ready handle of the current batch."""
        if self.batch_remaining <= 0:
            self.start_batch()
        if not self._ready:
            self.batch_remaining = 0
            return False
        self.batch_remaining -= 1
        h = self._ready.popleft()
        if not h._cancelled:
            self.steps += 1
            h._run()
        h = None
        return True

    def next_timer(self, horizon=None):
        """Earliest non-cancelled timer (within horizon seconds from now), or None."""
        while self._scheduled and self._scheduled[0]._cancelled:
            h = heapq.heappop(self._scheduled)
            h._scheduled = False
        if not self._scheduled:
            return None
        h = self._scheduled[0]
        if horizon is not None and h._when > self._vtime + horizon:
            return None
        return h

    def fire_timer(self, h):
        if self._scheduled and self._scheduled[0] is h:
            heapq.heappop(self._scheduled)
        else:
            self._scheduled.remove(h)
            heapq.heapify(self._scheduled)
        h._scheduled = False
        if h._when > self._vtime:
            self._vtime = h._when
        self._ready.append(h)

    def advance(self, dt):
        self._vtime += dt

    # ---- convenience: run default schedule to quiescence -------------------------------------
    def drain(self, horizon=50.0, max_steps=2_000_000, until=None, hold=()):
        """Default schedule: ready handles FIFO; when idle complete the oldest enabled job; when no
        job, fire timers inside `horizon`. Stops at quiescence (or when until() is true)."""
        n = 0
        t_end = None if horizon is None else self._vtime + horizon  # absolute: periodic timers cannot extend it
        while True:
            watchdog_check()
            if until is not None and until():
                return True
            if self._ready:
                self.run_one_handle()
            else:
                ej = [j for j in self.enabled_jobs() if j.kind not in hold]  # hold: job kinds left pending (e.g. a busy writer thread)
                if ej:
                    self.complete_job(ej[0])
                else:
                    t = self.next_timer()
                    if t is not None and t_end is not None and t._when > t_end:
                        t = None
                    if t is None:
                        if self.jobs and not hold:
                            raise HarnessError("deadlock: jobs pending but none enabled: %r"
                                               % [(j.kind, j.label) for j in self.jobs])
                        return until is None
                    self.fire_timer(t)
            n += 1
            if n > max_steps:
                raise HarnessError("drain: step horizon exceeded")

    def run_coro(self, coro, horizon=50.0):
        """Run one coroutine to completion under the default schedule and return its result."""
        task = self.create_task(coro)
        self.drain(horizon=horizon, until=task.done)
        if not task.done():
            raise HarnessError("run_coro: quiescent but task not done: %r" % task)
        return task.result()

    def shutdown(self):
        # cancel everything that is left so that no 'task was destroyed' noise leaks between runs
        for t in asyncio.all_tasks(self):
            t.cancel()
        for _ in range(10000):
            if not self._ready:
                break
            self.run_one_handle()
        self.jobs.clear()
        self._scheduled.clear()
        self.deactivate()
        try:
            self.close()
        except Exception:
            pass
