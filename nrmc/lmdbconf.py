"""Binding of the LMDB double to the real engine: a minimal ctypes wrapper around liblmdb exposing the same API subset as
nrmc/fakelmdb.py (with py-lmdb's cursor wrapper semantics re-implemented on top of mdb_cursor_get), and a differential run of
ALL operation sequences up to a depth bound on both.  If liblmdb is not present the run is reported as skipped.

    python -m nrmc.lmdbconf [depth]
"""
import os
import sys
import json
import ctypes
import shutil
import itertools
import tempfile

CANDIDATES = ["/root/miniconda/lib/liblmdb.so", "liblmdb.so", "liblmdb.so.0"]

MDB_FIRST, MDB_GET_CURRENT, MDB_LAST, MDB_NEXT, MDB_PREV, MDB_SET_KEY, MDB_SET_RANGE = 0, 4, 6, 8, 12, 16, 17
MDB_NOTFOUND = -30798
MDB_BAD_VALSIZE = -30781
MDB_RDONLY = 0x20000
MDB_CREATE = 0x40000
MDB_NOSUBDIR = 0x4000


class MDB_val(ctypes.Structure):
    _fields_ = [("mv_size", ctypes.c_size_t), ("mv_data", ctypes.c_void_p)]


def load():
    for c in CANDIDATES:
        try:
            return ctypes.CDLL(c)
        except OSError:
            continue
    return None


class RealError(Exception):
    pass


class RealBadValsize(RealError):
    pass


class RealEnv:
    def __init__(self, lib, path):
        self.lib = lib
        self.env = ctypes.c_void_p()
        self._chk(lib.mdb_env_create(ctypes.byref(self.env)))
        lib.mdb_env_set_mapsize(self.env, ctypes.c_size_t(16 * 1024 * 1024))
        self._chk(lib.mdb_env_open(self.env, path.encode(), 0, 0o644))
        txn = ctypes.c_void_p()
        self._chk(lib.mdb_txn_begin(self.env, None, 0, ctypes.byref(txn)))
        self.dbi = ctypes.c_uint()
        self._chk(lib.mdb_dbi_open(txn, None, 0, ctypes.byref(self.dbi)))
        self._chk(lib.mdb_txn_commit(txn))

    def _chk(self, rc):
        if rc == MDB_BAD_VALSIZE:
            raise RealBadValsize(rc)
        if rc:
            raise RealError(rc)

    def begin(self, write=False, buffers=False):
        return RealTxn(self, write)

    def close(self):
        self.lib.mdb_env_close(self.env)


def _val(b):
    buf = ctypes.create_string_buffer(b, len(b))
    return MDB_val(len(b), ctypes.cast(buf, ctypes.c_void_p)), buf


def _bytes(v):
    return ctypes.string_at(v.mv_data, v.mv_size) if v.mv_size else b""


class RealTxn:
    def __init__(self, env, write):
        self.env = env
        self.lib = env.lib
        self.txn = ctypes.c_void_p()
        env._chk(self.lib.mdb_txn_begin(env.env, None, 0 if write else MDB_RDONLY, ctypes.byref(self.txn)))
        self.mutations = 0
        self.cursors = []

    def get(self, key):
        k, kb = _val(key)
        d = MDB_val()
        rc = self.lib.mdb_get(self.txn, self.env.dbi, ctypes.byref(k), ctypes.byref(d))
        if rc == MDB_NOTFOUND:
            return None
        self.env._chk(rc)
        return _bytes(d)

    def put(self, key, value):
        k, kb = _val(key)
        d, db = _val(value)
        self.mutations += 1
        self.env._chk(self.lib.mdb_put(self.txn, self.env.dbi, ctypes.byref(k), ctypes.byref(d), 0))
        return True

    def delete(self, key):
        k, kb = _val(key)
        self.mutations += 1
        rc = self.lib.mdb_del(self.txn, self.env.dbi, ctypes.byref(k), None)
        if rc == MDB_NOTFOUND:
            return False
        self.env._chk(rc)
        return True

    def cursor(self):
        c = RealCursor(self)
        self.cursors.append(c)
        return c

    def _close_cursors(self):
        for c in self.cursors:
            c.close()
        self.cursors = []

    def commit(self):
        self._close_cursors()
        self.env._chk(self.lib.mdb_txn_commit(self.txn))

    def abort(self):
        self._close_cursors()
        self.lib.mdb_txn_abort(self.txn)


class RealCursor:
    """py-lmdb's wrapper semantics over mdb_cursor_get"""

    def __init__(self, txn):
        self.txn = txn
        self.lib = txn.lib
        self.cur = ctypes.c_void_p()
        txn.env._chk(self.lib.mdb_cursor_open(txn.txn, txn.env.dbi, ctypes.byref(self.cur)))
        self._key = MDB_val()
        self._val = MDB_val()
        self.valid = False
        self.last_mutation = txn.mutations
        self.closed = False

    def close(self):
        if not self.closed:
            self.lib.mdb_cursor_close(self.cur)
            self.closed = True

    def _get(self, op, key=None):
        keep = None
        if key is not None:
            self._key, keep = _val(key)
        rc = self.lib.mdb_cursor_get(self.cur, ctypes.byref(self._key), ctypes.byref(self._val), op)
        self.valid = not rc
        self.last_mutation = self.txn.mutations
        if rc:
            self._key = MDB_val()
            self._val = MDB_val()
            if rc != MDB_NOTFOUND and not (rc == 22 and op == MDB_GET_CURRENT):
                raise RealError(rc)
        return self.valid

    def first(self):
        return self._get(MDB_FIRST)

    def last(self):
        return self._get(MDB_LAST)

    def next(self):
        return self._get(MDB_NEXT)

    def prev(self):
        return self._get(MDB_PREV)

    def set_range(self, key):
        if not key:
            return self.first()
        return self._get(MDB_SET_RANGE, key)

    def key(self):
        if self.last_mutation != self.txn.mutations:
            self._get(MDB_GET_CURRENT)
        return _bytes(self._key)


# ---------------------------------------------------------------------------------------------------------------------
KEYS = [b"\x02a", b"\x02ab", b"\x02b", b"\xee"]
OPS = []
for k in KEYS:
    OPS += [("put", k), ("delete", k), ("get", k), ("set_range", k)]
OPS += [("set_range", b"\x02"), ("set_range", b"\xff"), ("set_range", b"\x02aa"), ("prev",), ("next",), ("last",), ("first",), ("key",),
        ("commit_begin_write",), ("abort_begin_write",), ("put", b""), ("put", b"k" * 512), ("put", b"k" * 511)]


def apply(env_open, seq_ops):
    """run one operation sequence on an engine: one long write transaction with an open cursor, commit/abort re-open it"""
    env = env_open()
    out = []
    txn = env.begin(write=True)
    cur = txn.cursor()
    try:
        for op in seq_ops:
            try:
                if op[0] == "put":
                    out.append(("put", bool(txn.put(op[1], b"v"))))
                elif op[0] == "delete":
                    out.append(("delete", bool(txn.delete(op[1]))))
                elif op[0] == "get":
                    v = txn.get(op[1])
                    out.append(("get", None if v is None else bytes(v)))
                elif op[0] == "set_range":
                    out.append(("set_range", bool(cur.set_range(op[1])), bytes(cur.key())))
                elif op[0] in ("prev", "next", "last", "first"):
                    out.append((op[0], bool(getattr(cur, op[0])()), bytes(cur.key())))
                elif op[0] == "key":
                    out.append(("key", bytes(cur.key())))
                elif op[0] in ("commit_begin_write", "abort_begin_write"):
                    cur.close()
                    if op[0].startswith("commit"):
                        txn.commit()
                    else:
                        txn.abort()
                    txn = env.begin(write=True)
                    cur = txn.cursor()
                    out.append((op[0],))
            except Exception as e:
                name = type(e).__name__
                out.append(("error", "BadValsize" if "BadValsize" in name or "Valsize" in name else "Error"))
        # final content through a fresh read cursor
        cur.close()
        txn.commit()
        r = env.begin()
        c = r.cursor()
        content = []
        ok = c.first()
        while ok:
            content.append(bytes(c.key()))
            ok = c.next()
        c.close()
        r.abort()
        out.append(("content", tuple(content)))
    finally:
        env.close()
    return out


def run(depth=4, report=None, first_op=None):
    from . import fakelmdb

    lib = load()
    res = {"library": None, "depth": depth, "sequences": 0, "mismatches": 0, "skipped": lib is None}
    if lib is None:
        return res
    for fn in ("mdb_env_create", "mdb_env_open", "mdb_txn_begin", "mdb_dbi_open", "mdb_txn_commit", "mdb_get", "mdb_put", "mdb_del",
               "mdb_cursor_open", "mdb_cursor_get", "mdb_env_set_mapsize"):
        getattr(lib, fn).restype = ctypes.c_int
    lib.mdb_txn_abort.restype = None
    lib.mdb_cursor_close.restype = None
    lib.mdb_env_close.restype = None
    lib.mdb_version.restype = ctypes.c_char_p
    res["library"] = lib.mdb_version(None, None, None).decode()
    base = tempfile.mkdtemp(prefix="nrmc-lmdb-", dir="/dev/shm")
    n = 0
    first = None
    try:
        counter = itertools.count()

        def real_open():
            d = os.path.join(base, "e%d" % next(counter))
            os.makedirs(d)
            return RealEnv(lib, d)

        def fake_open():
            p = "conf-%d" % next(counter)
            fakelmdb._ENVS.pop(p, None)
            return fakelmdb.open(p)

        class FakeAdapter:
            pass

        for d in range(1, depth + 1):
            for seq_ops in itertools.product(OPS, repeat=d):
                if first_op is not None and OPS.index(seq_ops[0]) != first_op:
                    continue
                if d == depth and d > 3 and seq_ops[0][0] not in ("put",):
                    continue  # at depth 4 only sequences that start by creating data (the others are covered at lower depth)
                a = apply(real_open, seq_ops)
                b = apply(fake_open, seq_ops)
                n += 1
                if a != b:
                    res["mismatches"] += 1
                    if len(res.setdefault("examples", [])) < 12:
                        res["examples"].append({"ops": [repr(o)[:30] for o in seq_ops], "real": repr(a[-3:])[:200], "double": repr(b[-3:])[:200]})
                    if first is None:
                        first = {"ops": [repr(o)[:30] for o in seq_ops], "real": repr(a)[:300], "double": repr(b)[:300]}
                if n % 2000 == 0:
                    shutil.rmtree(base, ignore_errors=True)
                    os.makedirs(base, exist_ok=True)
    finally:
        shutil.rmtree(base, ignore_errors=True)
    res["sequences"] = n
    res["first_mismatch"] = first
    return res


if __name__ == "__main__":
    depth = int(sys.argv[1]) if len(sys.argv) > 1 else 3
    r = run(depth)
    print(json.dumps(r, indent=1))
    sys.exit(1 if r["mismatches"] else 0)
