"""Runner shared by all checks: sharding over worker processes, verdicts, known findings, evidence,
replay artefacts.

A check module provides:
  ID, LEVEL, MAX_LIMIT (optional, default 6000)
  cases(tier)            -> list of picklable case descriptors (enumerated in the parent; exhaustive)
  run_case(case)         -> CaseResult dict:
        {"id": <stable case id>, "viol": [ {"clause":..., "detail":..., "sig":...} ],
         "outcome": <hashable/str observable outcome>, "nontrivial": bool,
         "states": int, "transitions": int, "evals": int, "extra": {counter: int}}
  describe(case)         -> JSON-able description for samples / replay files
  coverage(tier, agg)    -> dict merged into evidence.coverage (rule, bounds, ...)
  replay(desc)           -> re-run one case verbosely (returns list of violations)
"""
import os
import sys
import json
import time
import random
import hashlib
import traceback
import collections
import multiprocessing as mp

from .env import HarnessError, VERIF

NPROC = int(os.environ.get("NRMC_PROCS", "16"))


def vkey(case_id, clause, sig):
    return hashlib.sha1(("%s|%s|%s" % (case_id, clause, sig)).encode("utf8", "surrogatepass")).hexdigest()[:16]


class Known:
    def __init__(self, pid):
        self.findings = []
        self.keys = {}
        path = os.path.join(VERIF, "known_findings.json")
        if os.path.exists(path):
            data = json.load(open(path))
            for f in data.get("findings", []):
                if f["property"] != pid:
                    continue
                self.findings.append(f)
                kf = f.get("keys_file")
                ks = set(f.get("keys", []))
                if kf:
                    with open(os.path.join(VERIF, kf)) as fh:
                        ks.update(line.strip() for line in fh if line.strip())
                for k in ks:
                    self.keys[k] = f["id"]

    def lookup(self, key):
        return self.keys.get(key)


_W = {}


def _winit(modname, tier, seed):
    import importlib

    from . import env

    mod = importlib.import_module(modname)
    env.boot(max_limit=getattr(mod, "MAX_LIMIT", 6000))
    _W["mod"] = mod
    _W["tier"] = tier
    if hasattr(mod, "worker_init"):
        mod.worker_init(tier)


from .env import CaseTimeout, WATCHDOG  # noqa: E402


def _on_cpu_alarm(signum, frame):
    # relay code may swallow this (a 'return' inside 'finally' does): the flag makes the harness loops raise it again at their next step
    WATCHDOG["fired"] = True
    raise CaseTimeout()


def _arm(budget):
    import signal

    WATCHDOG["fired"] = False
    signal.setitimer(signal.ITIMER_VIRTUAL, budget, 5.0)  # after the budget: again every 5 s of CPU, in case the interruption is swallowed


def _disarm():
    import signal

    signal.setitimer(signal.ITIMER_VIRTUAL, 0)
    WATCHDOG["fired"] = False


def _cpu_budget(mod, tier):
    """CPU seconds (of this worker process, not wall clock: machine load does not count) one case may use before the relay code it runs
    is declared non-terminating.  Cases take well under a minute of CPU on the unchanged tree; the budget is two orders above that."""
    b = getattr(mod, "CASE_CPU_BUDGET", None) or {"quick": 300, "thorough": 6000}
    return int(os.environ.get("NRMC_CASE_CPU_BUDGET", b[tier]))


def _wrun(chunk):
    import signal

    mod = _W["mod"]
    out = []
    first = True
    budget = _cpu_budget(mod, _W.get("tier", "quick"))
    signal.signal(signal.SIGVTALRM, _on_cpu_alarm)
    for case in chunk:
        try:
            from . import env as _env

            _env.CLOCK.now = 1_700_000_000.0  # every case starts from the same wall clock
            # once a case of this worker did not terminate, the code under test spins somewhere: the remaining cases get a tenth of the budget
            _arm(budget if not _W.get("timeouts") else max(20, budget // 10))
            try:
                r = mod.run_case(case)
            except CaseTimeout:
                _disarm()
                _W["timeouts"] = _W.get("timeouts", 0) + 1
                desc = mod.describe(case)
                out.append({"id": "timeout|" + repr(case)[:120], "viol": [{
                    "case": json.dumps(desc, default=str)[:300], "clause": "terminates", "sig": "cpu>%ds" % budget,
                    "detail": "the relay code did not finish this case within %d s of CPU time (it spins or wedges): %s" % (budget, json.dumps(desc, default=str)[:400]),
                    "desc": desc}], "outcome": None, "evals": 1, "nontrivial": True, "desc": desc, "extra": {"cases_that_did_not_terminate": 1},
                    "sample": {"case": repr(case)[:200], "timeout": True}})
                # this worker's long-lived session may be wedged: start afresh
                try:
                    from . import seq as _seq

                    _seq.close_all()
                except BaseException:
                    pass
                first = False
                continue
            finally:
                _disarm()
            if first and getattr(mod, "DETERMINISM_SELFTEST", True):
                first = False
                _arm(budget)
                try:
                    r2 = mod.run_case(case)
                except CaseTimeout:
                    r2 = r  # the first run finished; a second run that does not is reported through the first run's verdict only
                finally:
                    _disarm()
                if _obs(r) != _obs(r2):
                    if r.get("viol") or r2.get("viol"):
                        # the two runs differ and at least one of them observed a violation on the real code: the relay keeps state
                        # across histories (long-lived storage / handler objects are reused on purpose).  Report what was observed.
                        seen = {(v["clause"], v["sig"]) for v in r.get("viol", [])}
                        for v in r2.get("viol", []):
                            if (v["clause"], v["sig"]) not in seen:
                                v = dict(v)
                                v["detail"] = str(v.get("detail")) + " | (observed when the same case was run a second time in the same process)"
                                r.setdefault("viol", []).append(v)
                        r.setdefault("extra", {})["cases_whose_second_run_differed"] = 1
                    else:
                        raise HarnessError("determinism self-test failed for case %r:\n%r\n%r" % (r.get("id"), _obs(r), _obs(r2)))
        except HarnessError as e:
            out.append({"harness_error": "%s\n%s" % (e, traceback.format_exc()), "case": repr(case)[:500]})
            continue
        except Exception as e:
            out.append({"harness_error": "unexpected %r\n%s" % (e, traceback.format_exc()), "case": repr(case)[:500]})
            continue
        out.append(r)
    return out


def _obs(r):
    return (r.get("id"), repr(r.get("outcome")), [(v["clause"], v["sig"]) for v in r.get("viol", [])],
            r.get("states"), r.get("transitions"))


def run_check(mod, tier, seed, emit_known=None, only=None):
    t0 = time.time()
    pid = mod.ID
    from . import sqlshim

    sqlshim.scratch_root()
    cases = mod.cases(tier)
    if only:
        cases = [c for c in cases if only in json.dumps(mod.describe(c), default=str)]
    n_cases = len(cases)
    rnd = random.Random(seed)
    order = list(range(n_cases))
    rnd.shuffle(order)  # VERIF_SEED permutes exploration order only; the case set is fixed
    per = getattr(mod, "CHUNK", None) or max(1, min(200, n_cases // (NPROC * 8) or 1))
    chunks = [[cases[i] for i in order[k:k + per]] for k in range(0, n_cases, per)]
    known = Known(pid)

    agg = {
        "evals": 0, "states": 0, "transitions": 0, "cases": 0, "nontrivial": 0,
        "outcomes": set(), "extra": collections.Counter(), "samples": [],
    }
    violations = []  # (key, case_id, clause, detail, desc)
    excused = collections.Counter()
    herrors = []

    procs = min(NPROC, max(1, len(chunks)))
    if os.environ.get("NRMC_INPROC"):
        _winit(mod.__name__, tier, seed)
        results_iter = map(_wrun, chunks)
        pool = None
    else:
        ctx = mp.get_context("fork")
        pool = ctx.Pool(procs, initializer=_winit, initargs=(mod.__name__, tier, seed),
                        maxtasksperchild=getattr(mod, "MAXTASKS", None))
        results_iter = pool.imap_unordered(_wrun, chunks)
    emit = [] if emit_known else None
    try:
        for res in results_iter:
            for r in res:
                if "harness_error" in r:
                    herrors.append(r)
                    continue
                agg["cases"] += 1
                agg["evals"] += r.get("evals", 1)
                agg["states"] += r.get("states", 0)
                agg["transitions"] += r.get("transitions", 0)
                if r.get("nontrivial", True):
                    agg["nontrivial"] += 1
                oc = r.get("outcome")
                if oc is not None:
                    if isinstance(oc, (list, set, tuple)) and r.get("outcome_is_set"):
                        agg["outcomes"].update(oc)
                    else:
                        agg["outcomes"].add(oc if isinstance(oc, str) else repr(oc))
                agg["extra"].update(r.get("extra", {}))
                if len(agg["samples"]) < 6 and r.get("sample") is not None and rnd.random() < 0.3:
                    agg["samples"].append(r["sample"])
                elif not agg["samples"] and r.get("sample") is not None:
                    agg["samples"].append(r["sample"])
                for v in r.get("viol", []):
                    key = vkey(v.get("case", r["id"]), v["clause"], v["sig"])
                    if emit is not None:
                        emit.append({"key": key, "case": v.get("case", r["id"]), "clause": v["clause"], "sig": v["sig"],
                                     "detail": v.get("detail"), "desc": r.get("desc")})
                    fid = known.lookup(key)
                    if fid is not None:
                        excused[fid] += 1
                    else:
                        violations.append((key, r["id"], v["clause"], v.get("detail"), r.get("desc"), v.get("exact")))
    finally:
        if pool is not None:
            pool.terminate()
            pool.join()

    wall = time.time() - t0
    if emit is not None:
        with open(emit_known, "w") as fh:
            for e in sorted(emit, key=lambda e: e["key"]):
                fh.write(json.dumps(e, ensure_ascii=True, default=str) + "\n")
        print("emitted %d failing (case,clause) records to %s" % (len(emit), emit_known))

    if herrors:
        print("INTERNAL ERROR: %d case(s) hit a harness error (no verdict is reported)" % len(herrors))
        print(herrors[0]["harness_error"][:4000])
        print("case:", herrors[0]["case"])
        return 2

    cov = {
        "evaluations": agg["evals"],
        "distinct_nontrivial": agg["nontrivial"],
        "cases": agg["cases"],
        "states": agg["states"],
        "transitions": agg["transitions"],
        "traces_validated_against_impl": agg["evals"],
        "distinct_outcomes": len(agg["outcomes"]),
        "samples": agg["samples"][:6] or ["(no sample)"],
        "exhaustive": True,
        "exhaustive_means": "every member of the finite space defined in 'rule' was executed on this run (no sampling, no time or branch cap); "
                            "where 'rule' names a stride (every k-th member of a larger family) that stride is part of the definition of the space",
        "counters": dict(agg["extra"]),
        "known_findings_excused": dict(excused),
    }
    cov.update(mod.coverage(tier, agg))
    if cov["states"] == 0:
        # table-style checks: a state is a distinct case (store / configuration), a transition one evaluation on the real code
        cov["states"] = max(1, agg["cases"])
        cov["transitions"] = max(1, agg["evals"])
        cov["states_transitions_meaning"] = "states = distinct cases (stores / configurations / shards), transitions = evaluations on the real code"
    ev = {
        "property_id": pid,
        "tier": tier,
        "seed": seed,
        "level": mod.LEVEL,
        "coverage": cov,
        "assumptions": getattr(mod, "ASSUMPTIONS", []),
        "wall_s": round(wall, 2),
        "violations": len(violations),
    }
    os.makedirs(os.path.join(VERIF, "evidence"), exist_ok=True)
    with open(os.path.join(VERIF, "evidence", "%s.json" % pid), "w") as fh:
        json.dump(ev, fh, indent=1, default=str, ensure_ascii=True)

    print("%s tier=%s seed=%d cases=%d evaluations=%d states=%d transitions=%d outcomes=%d wall=%.1fs" % (
        pid, tier, seed, agg["cases"], agg["evals"], agg["states"], agg["transitions"],
        len(agg["outcomes"]), wall))
    for k, v in sorted(agg["extra"].items()):
        print("   %s = %d" % (k, v))
    for f in known.findings:
        if excused.get(f["id"]):
            print("KNOWN-FINDING: property=%s %s [%s, %d case(s)]" % (pid, f.get("title") or f["description"], f["id"], excused[f["id"]]))
    if violations:
        violations.sort(key=lambda v: (len(str(v[1])), str(v[1])))
        by_clause = collections.Counter(v[2] for v in violations)
        print("violating (case,clause) pairs: %d  by clause: %s" % (len(violations), dict(by_clause)))
        rdir = os.path.join(VERIF, "replays", pid)
        os.makedirs(rdir, exist_ok=True)
        shown = set()
        for key, cid, clause, detail, desc, exact in violations:
            if clause in shown and len(shown) >= 1 and sum(1 for _ in shown) >= 8:
                continue
            if clause in shown:
                continue
            shown.add(clause)
            path = os.path.join("replays", pid, "%s.json" % key)
            with open(os.path.join(VERIF, path), "w") as fh:
                json.dump({"property": pid, "case_id": cid, "clause": clause, "detail": detail, "case": desc,
                           "exact": exact, "tier": tier}, fh, indent=1, default=str, ensure_ascii=True)
            print("VIOLATION property=%s replay=%s" % (pid, path))
            print("   clause=%s case=%s\n   detail=%s" % (clause, str(cid)[:300], str(detail)[:600]))
        return 1
    return 0
