#!/bin/sh
# offline setup: nothing to compile; verify interpreter + deps are importable and build the universe cache
set -e
cd "$(dirname "$0")"
mkdir -p evidence replays cache
PYTHONHASHSEED=0 /venv/bin/python -c "import sortedcontainers, coincurve, sqlalchemy, pydantic, falcon, pip._vendor.msgpack"
echo setup ok
