#!/usr/bin/env python3
"""Regenerates MANIFEST.json from nrmc/registry.py (single source of truth)."""
import json, sys, os
sys.path.insert(0, os.path.dirname(os.path.abspath(__file__)))
from nrmc.registry import CHECKS, NOT_APPLICABLE, HOOK_COMMITS

man = {
    "version": 1,
    "setup_cmd": "./setup.sh",
    "hooks": {
        "guard": "NOSTR_RELAY_VERIF",
        "enable": "no source hooks: every seam (event loop, clock, lmdb module, sqlite connection creator, thread/queue/futures module attributes) is replaced from the harness by assigning module attributes of the modules imported from /repo's working tree",
        "baseline_off_cmd": "cd /repo && /venv/bin/python -m pytest -ra -q -p no:cacheprovider --timeout=900 --continue-on-collection-errors",
        "source_commits": HOOK_COMMITS,
        "add_only": True,
    },
    "engines": [
        {"name": "nrmc", "path": "nrmc", "serves_properties": sorted(CHECKS),
         "kind_free_text": "hand-written explicit-state / stateless bounded-exhaustive explorer over the real nostr_relay code: virtual asyncio loop with deviation-bounded schedule enumeration, in-memory LMDB double with mutation log and crash/fault points, same-thread sqlite shim with statement log and fault points, settrace thread scheduler"}
    ],
    "checks": [],
    "not_applicable": NOT_APPLICABLE,
    "notes": "Run ./check <id> --tier quick|thorough [--replay file]. Known genuine defects that are not repaired are listed in known_findings.json.",
}
for pid in sorted(CHECKS):
    c = CHECKS[pid]
    man["checks"].append({
        "property_id": pid,
        "quick_cmd": f"./check {pid} --tier quick",
        "thorough_cmd": f"./check {pid} --tier thorough",
        "evidence_file": f"evidence/{pid}.json",
        "replay_cmd_template": f"./check {pid} --replay {{path}}",
        "engine": "nrmc",
        "level_claimed": {"category": c["level"], "text": c["text"], "design_ref": c["design_ref"]},
        "level_note": c["note"],
        "technique": c["technique"],
    })
json.dump(man, open(os.path.join(os.path.dirname(os.path.abspath(__file__)), "MANIFEST.json"), "w"), indent=1)
print("checks:", len(man["checks"]), "n/a:", len(NOT_APPLICABLE))
