#!/usr/bin/env python3
"""tools/seed_keep.py <PID> <A|B> <property broken> "<what it needs>" "<detected by ...>" : copy a verified seeded change into /verif/seeded/"""
import sys, os, json, shutil, subprocess, re
pid, v, prop, needs, detected = sys.argv[1:6]
wt = "/tmp/wt/%s" % pid
sid = "%s-%s%s" % (pid, os.environ.get("SEED_WAVE", ""), v)
d = "/verif/seeded/%s" % sid
os.makedirs(d, exist_ok=True)
shutil.copy(os.path.join(wt, "mut%s.patch" % v), os.path.join(d, "patch.diff"))
shutil.copy(os.path.join(wt, "demo_%s.py" % v), os.path.join(d, "demo.py"))
notes = open(os.path.join(wt, "notes.md")).read() if os.path.exists(os.path.join(wt, "notes.md")) else ""
r = subprocess.run(["git", "-C", "/repo", "apply", "--check", os.path.join(d, "patch.diff")], capture_output=True, text=True)
meta = {
    "id": sid, "breaks_property": prop, "origin": "independent sub-agent given only the property text and its own scratch worktree",
    "needs_to_manifest": needs,
    "what_was_run": "in the scratch worktree: demo.py exits 0 on the unchanged tree and non-zero with patch.diff applied; the pinned suite "
                    "(tools/baseline.py <worktree>) still passes all 36 stable tests with the patch; then `git -C /repo apply patch.diff`, the listed "
                    "checks, `git -C /repo checkout -- .` (waves 1-3) or a scratch copy of /repo HEAD imported through NRMC_REPO (tools/seed_eval_copy.sh, later waves)",
    "detected_by": detected,
    "applies_to_repo_head": r.returncode == 0,
    "repo_head_when_kept": subprocess.run(["git", "-C", "/repo", "rev-parse", "--short", "HEAD"], capture_output=True, text=True).stdout.strip(),
}
json.dump(meta, open(os.path.join(d, "meta.json"), "w"), indent=1)
open(os.path.join(d, "notes.md"), "w").write(notes)
print(sid, "applies:", r.returncode == 0)
