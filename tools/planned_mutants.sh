#!/bin/sh
# the first-wave mutants planned in DESIGN.md section 7 (textual), each against the check(s) expected to catch it
T=/verif/tools/textmut.py
m() { echo "## $1"; shift; $T "$@" 2>&1 | tail -${TAILN:-2}; }
m "notify inside the transaction (before commit)" nostr_relay/storage/db.py '                        changed = result.rowcount == 1
                        await self.post_save(event, connection=conn, changed=changed)' '                        changed = result.rowcount == 1
                        await self.post_save(event, connection=conn, changed=changed)
                        if changed:
                            await self.notify_all_connected(event)' quick C07
m "duplicates re-broadcast (if changed removed)" nostr_relay/storage/db.py '        if changed:
            await self.notify_all_connected(event)' '        if True:
            await self.notify_all_connected(event)' quick C06
m "no unsubscribe on same-id REQ" nostr_relay/storage/base.py '        if sub_id in subs:
            await self.unsubscribe(client_id, sub_id)' '        if False:
            await self.unsubscribe(client_id, sub_id)' quick C13 C05
m "registry entry kept on CLOSE" nostr_relay/storage/base.py '                del self.clients[client_id][sub_id]
                self.log.debug("%s/%s -", client_id, sub_id)' '                self.log.debug("%s/%s -", client_id, sub_id)' quick C13 C05
m "AUTH freshness 6000 s" nostr_relay/auth.py '        if since >= 600:' '        if since >= 6000:' quick C15
m "AUTH challenge not compared" nostr_relay/auth.py '                if tag[1] != challenge:' '                if False:' quick C15
m "query permission not checked" nostr_relay/storage/base.py '            if self.authenticator and not await self.authenticator.can_do(
                auth_token, Action.query.value, sub
            ):' '            if False:' quick C14
m "size bound >=" nostr_relay/validators.py 'if len(event.content) > config.max_event_size:' 'if len(event.content) >= config.max_event_size:' quick C16
m "pow bound <=" nostr_relay/validators.py 'if found_bits < config.require_pow:' 'if found_bits <= config.require_pow:' quick C16
m "hellthread >=" nostr_relay/validators.py 'if num_tags > config.hellthread_limit:' 'if num_tags >= config.hellthread_limit:' quick C16
m "limiter window <=" nostr_relay/rate_limiter.py 'if (now - ts) < interval:' 'if (now - ts) <= interval + 0.75:' quick C18
m "limiter count >" nostr_relay/rate_limiter.py 'if count == freq:' 'if count > freq:' quick C18
m "notifier echoes to sender" nostr_relay/notifier.py 'if peer != writer:' 'if True:' quick C20
m "GC kind < 30000 -> <=" nostr_relay/storage/db.py '(kind >= 20000 and kind < 30000)' '(kind >= 20000 and kind <= 30000)' quick C17
m "content not escaped" nostr_relay/util.py '"content":{encode_basestring(event.content)}' '"content":"{event.content}"' quick C04
m "kind-5 ignores author (sql)" nostr_relay/storage/db.py '(self.EventTable.c.pubkey == bytes.fromhex(event.pubkey))
                            & (self.EventTable.c.id == event_id)' '(self.EventTable.c.id == event_id)' quick C08
m "until inclusive in SQL (neutral by R1)" nostr_relay/storage/db.py 'subwhere.append("created_at < %d" % filter_obj.until)' 'subwhere.append("created_at <= %d" % filter_obj.until)' quick C02 C05
m "kv writer: post_save in a second transaction" nostr_relay/storage/kv.py '                            for index in self.write_indexes:
                                index.write(event, txn)
                                # log.debug("index %s event %s", index, event)
                            self._post_save(txn, event, counter, log)' '                            for index in self.write_indexes:
                                index.write(event, txn)
                            txn.commit()
                            with env.begin(write=True, buffers=True) as txn2:
                                self._post_save(txn2, event, counter, log)' quick C07
