#!/usr/bin/env python3
"""Regenerate the seeded-change table in DESIGN.md (between the SEEDS markers) from seeded/*/meta.json"""
import json, glob, re
rows = ["| seed | needs, in order to manifest | detected by |", "|---|---|---|"]
for d in sorted(glob.glob('/verif/seeded/*/meta.json')):
    m = json.load(open(d))
    rows.append("| %s | %s | %s |" % (m['id'], m['needs_to_manifest'].replace('|', '/'), m['detected_by'].replace('|', '/')))
p = '/verif/DESIGN.md'
s = open(p).read()
a, b = "<!-- SEEDS-BEGIN -->", "<!-- SEEDS-END -->"
if a not in s:
    # first time: replace the hand-made table
    start = s.index("| seed | needs, in order to manifest | detected by |")
    end = s.index("\n\nC05-B is the only kept change")
    s = s[:start] + a + "\n" + "\n".join(rows) + "\n" + b + s[end:]
else:
    s = s[:s.index(a)] + a + "\n" + "\n".join(rows) + "\n" + b + s[s.index(b) + len(b):]
open(p, 'w').write(s)
print(len(rows) - 2, "seeds")
