#!/bin/sh
# tools/seed_recheck.sh <seed id> "<checks>" [tier] : run checks against a scratch copy of /repo HEAD with seeded/<id>/patch.diff applied
sid=$1; checks=$2; tier=${3:-quick}
copy=/dev/shm/repo_mut_$$
rm -rf $copy; mkdir -p $copy; (cd /repo && git archive HEAD | tar -x -C $copy)
(cd $copy && patch -s -p1 < /verif/seeded/$sid/patch.diff) || { echo "PATCH DOES NOT APPLY TO /repo HEAD"; rm -rf $copy; exit 3; }
for c in $checks; do
  out=$(cd /verif && NRMC_REPO=$copy NRMC_PROCS=${NRMC_PROCS:-8} ./check $c --tier $tier 2>&1)
  rc=$?
  echo "$sid $c rc=$rc $(echo "$out" | grep -c '^VIOLATION') VIOLATION; $(echo "$out" | grep -m1 'clause=' | cut -c1-150)"
done
rm -rf $copy
cd /verif && git checkout -q -- evidence
