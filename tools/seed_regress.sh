#!/bin/sh
# tools/seed_regress.sh [out] : re-run, for every kept seed, the quick checks its meta.json names (against a scratch copy of /repo HEAD + patch)
out=${1:-/tmp/seed_regress.log}
: > $out
for d in /verif/seeded/*/; do
  sid=$(basename $d)
  checks=$(python3 - "$d/meta.json" <<'PY'
import json,re,sys
m=json.load(open(sys.argv[1]))
cs=[]
for c in re.findall(r'(C\d\d) quick', m.get('detected_by','')):
    if c not in cs: cs.append(c)
print(' '.join(cs[:1]) or m['breaks_property'])
PY
)
  NRMC_PROCS=${NRMC_PROCS:-6} /verif/tools/seed_recheck.sh $sid "$checks" quick >> $out 2>&1
done
echo DONE >> $out
