#!/bin/sh
# usage: tools/seed_eval.sh C08 A "C08 C06"   -> verify a sub-agent's seeded change in its scratch worktree, then run checks against it
pid=$1; v=$2; checks=$3; tier=${4:-quick}
wt=/tmp/wt/$pid
patch=$wt/mut$v.patch
demo=demo_$v.py
cd $wt || exit 2
git checkout -q -- nostr_relay 2>/dev/null
echo "== clean tree demo:"; (/venv/bin/python $demo >/dev/null 2>&1; echo "   exit $?")
git apply $patch || { echo "PATCH DOES NOT APPLY"; exit 2; }
echo "== patched demo:"; (/venv/bin/python $demo >/dev/null 2>&1; echo "   exit $?")
echo "== baseline with patch:"; python3 /verif/tools/baseline.py $wt | head -4
git checkout -q -- nostr_relay
# the patch was made against an older HEAD? check it applies to /repo
cd /repo && git apply --check $patch 2>/dev/null || { echo "PATCH DOES NOT APPLY TO /repo HEAD"; exit 3; }
echo "== checks:"; /verif/tools/mutant.sh $patch $tier $checks
