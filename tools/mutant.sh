#!/bin/sh
# usage: tools/mutant.sh <patch> <tier> C01 C05 ...   : apply a seeded change to /repo, run the named checks, undo it.
patch=$1; tier=$2; shift 2
cd /repo || exit 2
if ! git diff --quiet; then echo "/repo has uncommitted changes"; exit 2; fi
git apply "$patch" || { echo "patch does not apply"; exit 2; }
trap 'git -C /repo checkout -- . ' EXIT INT TERM
for c in "$@"; do
  out=$(cd /verif && ./check $c --tier $tier 2>&1)
  rc=$?
  echo "$c rc=$rc $(echo "$out" | grep -c '^VIOLATION') VIOLATION lines; $(echo "$out" | grep -m1 'clause=' | cut -c1-160)"
done
