#!/bin/sh
# run every quick (or $1) check, print one line each
tier=${1:-quick}
cd "$(dirname "$0")/.."
for i in 01 02 03 04 05 06 07 08 09 10 11 12 13 14 15 16 17 18 19 20; do
  s=$(date +%s)
  ./check C$i --tier $tier > /tmp/run_C$i.log 2>&1; rc=$?
  e=$(date +%s)
  echo "C$i rc=$rc $((e-s))s $(grep -c '^VIOLATION' /tmp/run_C$i.log) viol $(grep -c '^KNOWN-FINDING' /tmp/run_C$i.log) known"
done
