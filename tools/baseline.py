#!/usr/bin/env python3
"""Run the pinned test suite of a repo checkout (default /repo) and compare with BASELINE.json stable_pass."""
import json, subprocess, sys, os, tempfile
import xml.etree.ElementTree as ET
repo = sys.argv[1] if len(sys.argv) > 1 else "/repo"
base = json.load(open("/root/.vp/BASELINE.json"))
fd, xml = tempfile.mkstemp(suffix=".xml", dir="/dev/shm"); os.close(fd)
env = dict(os.environ); env.pop("NOSTR_RELAY_VERIF", None)
p = subprocess.run(["/venv/bin/python", "-m", "pytest", "-q", "-p", "no:cacheprovider", "--timeout=900",
                    "--continue-on-collection-errors", "--junitxml=" + xml], cwd=repo, env=env,
                   stdout=subprocess.PIPE, stderr=subprocess.STDOUT, text=True)
passed = set()
for tc in ET.parse(xml).getroot().iter("testcase"):
    if not any(c.tag in ("failure", "error", "skipped") for c in tc):
        passed.add("%s::%s" % (tc.get("classname"), tc.get("name")))
os.unlink(xml)
missing = [t for t in base["stable_pass"] if t not in passed]
print("passed=%d stable_pass=%d missing=%d" % (len(passed), len(base["stable_pass"]), len(missing)))
for m in missing: print("  MISSING", m)
sys.exit(1 if missing else 0)
