#!/usr/bin/env python3
"""tools/textmut.py <file under /repo> <old> <new> <tier> C02 C11 ... : textual mutant of /repo, run checks, revert."""
import sys, subprocess, os
f, old, new, tier = sys.argv[1:5]
checks = sys.argv[5:]
p = os.path.join("/repo", f)
s = open(p).read()
if s.count(old) != 1:
    print("old text occurs %d times" % s.count(old)); sys.exit(2)
if subprocess.run(["git", "-C", "/repo", "diff", "--quiet"]).returncode:
    print("/repo dirty"); sys.exit(2)
open(p, "w").write(s.replace(old, new))
try:
    for c in checks:
        r = subprocess.run(["./check", c, "--tier", tier], cwd="/verif", capture_output=True, text=True)
        viol = [l for l in r.stdout.splitlines() if l.startswith("VIOLATION")]
        cl = [l.strip()[:150] for l in r.stdout.splitlines() if "clause=" in l][:1]
        print("%s rc=%d %d VIOLATION %s" % (c, r.returncode, len(viol), cl))
finally:
    subprocess.run(["git", "-C", "/repo", "checkout", "--", "."])
