#!/bin/sh
# like seed_eval.sh, but the checks run against a scratch COPY of /repo (NRMC_REPO) so that background sweeps using /repo are not disturbed
pid=$1; v=$2; checks=$3; tier=${4:-quick}
wt=/tmp/wt/$pid
patch=$wt/mut$v.patch
demo=demo_$v.py
cd $wt || exit 2
git checkout -q -- nostr_relay 2>/dev/null
echo "clean demo: $(/venv/bin/python $demo >/dev/null 2>&1; echo $?)"
git apply $patch || { echo "PATCH DOES NOT APPLY"; exit 2; }
echo "patched demo: $(timeout 300 /venv/bin/python $demo >/dev/null 2>&1; echo $?)"
echo "baseline with patch: $(python3 /verif/tools/baseline.py $wt | head -1)"
git checkout -q -- nostr_relay
copy=/dev/shm/repo_mut_$$
rm -rf $copy; mkdir -p $copy; (cd /repo && git archive HEAD | tar -x -C $copy)
(cd $copy && patch -s -p1 < $patch) || { echo "PATCH DOES NOT APPLY TO /repo HEAD"; rm -rf $copy; exit 3; }
for c in $checks; do
  out=$(cd /verif && NRMC_REPO=$copy NRMC_PROCS=${NRMC_PROCS:-8} ./check $c --tier $tier 2>&1)
  rc=$?
  echo "$c rc=$rc $(echo "$out" | grep -c '^VIOLATION') VIOLATION; $(echo "$out" | grep -m1 'clause=' | cut -c1-150)"
done
rm -rf $copy
# evidence files were rewritten by a run on a mutant: restore the committed ones
cd /verif && git checkout -q -- evidence
